import argparse
import json
import os
import sys

HERE = os.path.dirname(os.path.abspath(__file__))
sys.path.insert(0, HERE)


def _on_term(sig, frm):
    # an external time limit: take the pool's workers down with us instead of leaving them orphaned
    import multiprocessing as mp

    for c in mp.active_children():
        try:
            c.terminate()
        except Exception:  # noqa: BLE001
            pass
    os._exit(143)


def main():
    import signal

    signal.signal(signal.SIGTERM, _on_term)
    ap = argparse.ArgumentParser()
    ap.add_argument("target")
    ap.add_argument("path", nargs="?")
    ap.add_argument("--tier", default=os.environ.get("VERIF_TIER", "quick"))
    ap.add_argument("--only", default=None)
    ap.add_argument("--jobs", type=int, default=None)
    ap.add_argument("-v", action="store_true")
    a = ap.parse_args()
    seed = int(os.environ.get("VERIF_SEED", "0"))
    if a.target == "replay":
        from symtrace.replaycli import replay_file

        sys.exit(replay_file(a.path))
    pid = a.target.upper()
    modname = f"props.{pid.lower()}"
    from symtrace.driver import run_property

    rc = run_property(modname, a.tier, seed, jobs=a.jobs, only=a.only, verbose=a.v)
    sys.exit(rc)


if __name__ == "__main__":
    main()
