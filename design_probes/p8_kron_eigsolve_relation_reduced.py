# NORM-mode feasibility: sparse polynomials over QQ (sympy PolyRing), rational functions as (num,den) without gcd,
# reduced modulo atom relations s^2 -> 1-c^2.  Kronecker(2x2 x 2x2)+sigma*I eigen-solve identity.
import time
from sympy.polys.rings import ring
from sympy.polys.domains import QQ
names="ca sa cb sb wa0 wa1 wb0 wb1 sig b0 b1 b2 b3".split()
R,*g=ring(names,QQ); ca,sa,cb,sb,wa0,wa1,wb0,wb1,sig,b0,b1,b2,b3=g
REL={1:(0,),3:(2,)}  # index of s-atom -> index of its c
def red(p):
    # reduce exponents of sa (idx1), sb (idx3): s^2 -> 1 - c^2
    changed=True
    while changed:
        changed=False
        out=R.zero
        for mon,coef in p.terms():
            m=list(mon); f=R.one
            for si,(ci,) in REL.items():
                if m[si]>=2:
                    k=m[si]//2; m[si]-=2*k; f=f*(1-g[ci]**2)**k; changed=True
            out+= R.term_new(tuple(m),coef)*f if f!=R.one else R.term_new(tuple(m),coef)
        p=out
    return p
class Q:
    __slots__=("n","d")
    def __init__(s,n,d=None): s.n=n; s.d=R.one if d is None else d
    def __add__(a,b):
        if a.d==b.d: return Q(red(a.n+b.n),a.d)
        return Q(red(a.n*b.d+b.n*a.d), red(a.d*b.d))
    def __sub__(a,b): return a+Q(-b.n,b.d)
    def __mul__(a,b): return Q(red(a.n*b.n), red(a.d*b.d))
    def __truediv__(a,b): return Q(red(a.n*b.d), red(a.d*b.n))
Z=Q(R.zero); ONE=Q(R.one)
def S(xs):
    s=xs[0]
    for x in xs[1:]: s=s+x
    return s
def mm(A,B): return [[S([A[i][k]*B[k][j] for k in range(len(B))]) for j in range(len(B[0]))] for i in range(len(A))]
def T(A): return [list(r) for r in zip(*A)]
def kron(A,B): return [[A[i][k]*B[j][l] for k in range(len(A[0])) for l in range(len(B[0]))] for i in range(len(A)) for j in range(len(B))]
def diag(v): return [[v[i] if i==j else Z for j in range(len(v))] for i in range(len(v))]
for mutant in (False,True):
    t0=time.time()
    Qa=[[Q(ca),Q(-sa)],[Q(sa),Q(ca)]]; Qb=[[Q(cb),Q(-sb)],[Q(sb),Q(cb)]]
    wa=[Q(wa0),Q(wa1)]; wb=[Q(wb0),Q(wb1)]; sg=Q(sig)
    A=mm(mm(Qa,diag(wa)),T(Qa)); B=mm(mm(Qb,diag(wb)),T(Qb))
    K=kron(A,B); n=4
    Kd=[[K[i][j]+(sg if i==j else Z) for j in range(n)] for i in range(n)]
    b=[[Q(b0)],[Q(b1)],[Q(b2)],[Q(b3)]]
    ev=[x*y for x in wa for y in wb]
    inv2=diag([ONE/(e+sg) for e in ev])
    Qk=kron(Qa,Qb)
    x=mm(mm(Qk,inv2),mm(T(Qk),b)) if not mutant else mm(mm(Qk,inv2),mm(Qk,b))
    Kx=mm(Kd,x)
    res=[red(Kx[i][0].n*b[i][0].d-b[i][0].n*Kx[i][0].d) for i in range(n)]
    print("mutant" if mutant else "orig",[r==0 for r in res],[len(r.terms()) for r in res],round(time.time()-t0,2))
