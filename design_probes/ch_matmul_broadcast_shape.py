from typing import Tuple, List
import linear_operator.utils.broadcasting as B

class _T:  # pure-python stand-ins for the two torch entry points the function uses (documented contracts)
    @staticmethod
    def Size(x): return tuple(x)
    @staticmethod
    def broadcast_shapes(a, b):
        a, b = tuple(a), tuple(b)
        n = max(len(a), len(b)); a = (1,) * (n - len(a)) + a; b = (1,) * (n - len(b)) + b
        out = []
        for x, y in zip(a, b):
            if x == y or y == 1: out.append(x)
            elif x == 1: out.append(y)
            else: raise RuntimeError("not broadcastable")
        return tuple(out)
B.torch = _T

def _ref(sa, sb):
    # torch.matmul's shape rule for >=2-D lhs (None = torch raises)
    if len(sb) == 1:
        return tuple(sa[:-1]) if sa[-1] == sb[0] else None
    if sa[-1] != sb[-2]: return None
    a, b = tuple(sa[:-2]), tuple(sb[:-2])
    n = max(len(a), len(b)); a = (1,) * (n - len(a)) + a; b = (1,) * (n - len(b)) + b
    out = []
    for x, y in zip(a, b):
        if x != y and x != 1 and y != 1: return None
        out.append(max(x, y))
    return tuple(out) + (sa[-2], sb[-1])

def _check(a0: int, a1: int, a2: int, a3: int, la: int, b0: int, b1: int, b2: int, b3: int, lb: int) -> bool:
    """
    pre: 2 <= la <= 4 and 1 <= lb <= 4
    pre: all(1 <= x <= 3 for x in (a0,a1,a2,a3,b0,b1,b2,b3))
    post: _
    """
    sa = (a0, a1, a2, a3)[4 - la:]; sb = (b0, b1, b2, b3)[4 - lb:]
    try:
        got = tuple(B._matmul_broadcast_shape(sa, sb))
    except RuntimeError:
        got = None
    return got == _ref(sa, sb)
