# Kronecker + const diag eigen-solve, with (num,den) clearing + sqrt-atom reduction (1/r*1/r -> 1/(radicand))
import z3, time
class Q:
    __slots__=("n","d")
    def __init__(s,n,d=None): s.n=n if not isinstance(n,(int,float)) else z3.RealVal(n); s.d=z3.RealVal(1) if d is None else d
    def __add__(a,b): return Q(a.n*b.d+b.n*a.d, a.d*b.d) if not z3.eq(a.d,b.d) else Q(a.n+b.n,a.d)
    def __sub__(a,b): return Q(a.n*b.d-b.n*a.d, a.d*b.d) if not z3.eq(a.d,b.d) else Q(a.n-b.n,a.d)
    def __mul__(a,b): return Q(a.n*b.n, a.d*b.d)
    def __truediv__(a,b): return Q(a.n*b.d, a.d*b.n)
ZERO=Q(0)
def S(xs):
    s=xs[0]
    for x in xs[1:]: s=s+x
    return s
def mm(A,B): return [[S([A[i][k]*B[k][j] for k in range(len(B))]) for j in range(len(B[0]))] for i in range(len(A))]
def T(A): return [list(r) for r in zip(*A)]
def kron(A,B): return [[A[i][k]*B[j][l] for k in range(len(A[0])) for l in range(len(B[0]))] for i in range(len(A)) for j in range(len(B))]
def diag(v): return [[v[i] if i==j else ZERO for j in range(len(v))] for i in range(len(v))]
def rot(name):
    t=z3.Real(f"t{name}"); d=1+t*t; c=Q(1-t*t,d); s=Q(2*t,d); return [[c,Q(0)-s],[s,c]]
for mutant in (False,True):
    Qa=rot("a"); Qb=rot("b")
    wa=[Q(x) for x in z3.Reals("wa0 wa1")]; wb=[Q(x) for x in z3.Reals("wb0 wb1")]; sig=Q(z3.Real("sig"))
    cons=[w.n>0 for w in wa+wb]+[sig.n>0]
    A=mm(mm(Qa,diag(wa)),T(Qa)); B=mm(mm(Qb,diag(wb)),T(Qb))
    K=kron(A,B); n=4
    Kd=[[K[i][j]+(sig if i==j else ZERO) for j in range(n)] for i in range(n)]
    b=[[Q(z3.Real(f"b{i}"))] for i in range(n)]
    ev=[x*y for x in wa for y in wb]
    inv2=diag([Q(1)/(e+sig) for e in ev])   # (1/r)*(1/r) reduced
    Qk=kron(Qa,Qb)
    x=mm(mm(Qk,inv2),mm(T(Qk),b)) if not mutant else mm(mm(Qk,inv2),mm(Qk,b))
    Kx=mm(Kd,x)
    t0=time.time()
    goal=z3.Or([z3.simplify(Kx[i][0].n*b[i][0].d-b[i][0].n*Kx[i][0].d,som=True)!=0 for i in range(n)])
    print("simplify",round(time.time()-t0,2),len(goal.sexpr()))
    s=z3.Solver(); s.set("timeout",300000); s.add(cons); s.add(goal)
    t0=time.time(); print("mutant" if mutant else "orig",s.check(),round(time.time()-t0,2))
