# z3 on 2-step CG (n=2) with rhs normalisation: x2 == A^{-1} b ?
import z3, time
def dot(u,v): return z3.Sum([x*y for x,y in zip(u,v)])
def mv(A,v): return [dot(r,v) for r in A]
def run(n, param, iters, mutant=False, norm=True):
    cons=[]
    if param=="chol":
        L=[[z3.Real(f"l{i}{j}") if j<=i else z3.RealVal(0) for j in range(n)] for i in range(n)]
        cons+=[L[i][i]>0 for i in range(n)]
        A=[[z3.Sum([L[i][k]*L[j][k] for k in range(n)]) for j in range(n)] for i in range(n)]
    else:
        a,b,c=z3.Reals("a b c"); A=[[a,b],[b,c]]; cons+=[a>0,a*c-b*b>0]
    rhs=[z3.Real(f"r{i}") for i in range(n)]
    if norm:
        nr=z3.Real("nr"); cons+=[nr>0, nr*nr==dot(rhs,rhs)]
        bb=[x/nr for x in rhs]
    else:
        nr=1; bb=rhs; cons.append(dot(rhs,rhs)>0)
    x=[z3.RealVal(0)]*n; r=list(bb); p=list(r); rr=dot(r,r)
    for k in range(iters):
        Ap=mv(A,p); alpha=rr/dot(p,Ap)
        x=[xi+alpha*pi for xi,pi in zip(x,p)]
        r=[ri-alpha*api for ri,api in zip(r,Ap)] if not mutant else [ri+alpha*api for ri,api in zip(r,Ap)]
        rr2=dot(r,r); beta=rr2/rr; rr=rr2
        p=[ri+beta*pi for ri,pi in zip(r,p)]
        # guard: residual nonzero for non-final iterations (generic case)
        if k<iters-1: cons.append(rr>0)
    x=[xi*nr for xi in x]
    Ax=mv(A,x)
    s=z3.Solver(); s.set("timeout",120000); s.add(cons); s.add(z3.Or([u!=v for u,v in zip(Ax,rhs)]))
    t=time.time(); res=s.check(); return res, round(time.time()-t,2)
print("n2 abc nonorm", run(2,"abc",2,norm=False))
print("n2 abc norm", run(2,"abc",2))
print("n2 chol norm", run(2,"chol",2))
print("n2 mutant", run(2,"abc",2,mutant=True))
print("n3 chol nonorm", run(3,"chol",3,norm=False))
