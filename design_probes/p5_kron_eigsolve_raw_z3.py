import z3, time
def mm(A,B): return [[z3.Sum([A[i][k]*B[k][j] for k in range(len(B))]) for j in range(len(B[0]))] for i in range(len(A))]
def T(A): return [list(r) for r in zip(*A)]
def kron(A,B): return [[A[i][k]*B[j][l] for k in range(len(A[0])) for l in range(len(B[0]))] for i in range(len(A)) for j in range(len(B))]
def diag(v): return [[v[i] if i==j else z3.RealVal(0) for j in range(len(v))] for i in range(len(v))]
def rot(name,mode,cons):
    if mode=="cs":
        c,s=z3.Reals(f"c{name} s{name}"); cons.append(c*c+s*s==1); return [[c,-s],[s,c]]
    t=z3.Real(f"t{name}"); d=1+t*t; c=(1-t*t)/d; s=2*t/d; return [[c,-s],[s,c]]
for mode in ("cs","cayley"):
    cons=[]
    Qa=rot("a",mode,cons); Qb=rot("b",mode,cons)
    wa=z3.Reals("wa0 wa1"); wb=z3.Reals("wb0 wb1"); sig=z3.Real("sig")
    cons+= [w>0 for w in wa+wb]+[sig>0]
    A=mm(mm(Qa,diag(wa)),T(Qa)); B=mm(mm(Qb,diag(wb)),T(Qb))
    K=kron(A,B); n=4
    Kd=[[K[i][j]+(sig if i==j else 0) for j in range(n)] for i in range(n)]
    b=[[z3.Real(f"b{i}")] for i in range(n)]
    # code path: evals = kron(wa,wb) ; q = kron(Qa,Qb); x = q diag(1/sqrt(e+sig)) diag(1/sqrt(e+sig)) q^T b
    ev=[x*y for x in wa for y in wb]
    roots=[]
    for i,e in enumerate(ev):
        r=z3.Real(f"rt{i}"); cons+=[r>0, r*r==e+sig]; roots.append(r)
    Q=kron(Qa,Qb)
    inv=diag([1/r for r in roots])
    x=mm(mm(Q,inv),mm(inv,mm(T(Q),b)))
    Kx=mm(Kd,x)
    s=z3.Solver(); s.set("timeout",120000); s.add(cons); s.add(z3.Or([Kx[i][0]!=b[i][0] for i in range(n)]))
    t0=time.time(); print(mode,s.check(),round(time.time()-t0,2))
    # mutant: forgot one inv
    x=mm(Q,mm(inv,mm(T(Q),b))); Kx=mm(Kd,x)
    s=z3.Solver(); s.set("timeout",120000); s.add(cons); s.add(z3.Or([Kx[i][0]!=b[i][0] for i in range(n)]))
    t0=time.time(); print(" mutant",mode,s.check(),round(time.time()-t0,2))
