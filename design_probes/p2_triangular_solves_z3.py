# How well does z3 handle rational identities from triangular solves?  (pure z3, no torch)
import z3, time, itertools
from fractions import Fraction
def tri(n,name): return [[z3.Real(f"{name}{i}{j}") if j<=i else z3.RealVal(0) for j in range(n)] for i in range(n)]
def matmul(A,B): return [[z3.Sum([A[i][k]*B[k][j] for k in range(len(B))]) for j in range(len(B[0]))] for i in range(len(A))]
def T(A): return [list(r) for r in zip(*A)]
def fsolve(L,B,mode,cons):  # L lower, solve L X = B
    n=len(L); m=len(B[0]); X=[[None]*m for _ in range(n)]
    for j in range(m):
        for i in range(n):
            s=B[i][j]-z3.Sum([L[i][k]*X[k][j] for k in range(i)]) if i else B[i][j]
            if mode=="div": X[i][j]=s/L[i][i]
            else:
                q=z3.Real(f"q_{id(L)%1000}_{i}_{j}_{len(cons)}"); cons.append(q*L[i][i]==s); X[i][j]=q
    return X
def bsolve(U,B,mode,cons): # U upper
    n=len(U); m=len(B[0]); X=[[None]*m for _ in range(n)]
    for j in range(m):
        for i in reversed(range(n)):
            s=B[i][j]-z3.Sum([U[i][k]*X[k][j] for k in range(i+1,n)]) if i<n-1 else B[i][j]
            if mode=="div": X[i][j]=s/U[i][i]
            else:
                q=z3.Real(f"r_{id(U)%1000}_{i}_{j}_{len(cons)}"); cons.append(q*U[i][i]==s); X[i][j]=q
    return X
for n,m,mode in [(2,1,"div"),(2,1,"var"),(3,1,"div"),(3,1,"var"),(3,2,"div"),(4,1,"div"),(4,1,"var")]:
    L=tri(n,"l"); B=[[z3.Real(f"b{i}{j}") for j in range(m)] for i in range(n)]
    cons=[L[i][i]>0 for i in range(n)]
    A=matmul(L,T(L))
    W=fsolve(L,B,mode,cons); X=bsolve(T(L),W,mode,cons)
    AX=matmul(A,X)
    for solver in ("z3",):
        s=z3.Solver(); s.set("timeout",60000); s.add(cons); s.add(z3.Or([AX[i][j]!=B[i][j] for i in range(n) for j in range(m)]))
        t=time.time(); r=s.check(); print(n,m,mode,r,round(time.time()-t,2))
    # mutant: use L instead of L^T in second solve
    cons2=[L[i][i]>0 for i in range(n)]
    W=fsolve(L,B,mode,cons2); X=fsolve(L,W,mode,cons2); AX=matmul(A,X)
    s=z3.Solver(); s.set("timeout",60000); s.add(cons2); s.add(z3.Or([AX[i][j]!=B[i][j] for i in range(n) for j in range(m)]))
    t=time.time(); r=s.check(); print("   mutant",r,round(time.time()-t,2))
