import torch, collections, warnings
warnings.simplefilter("ignore")
from torch.utils._python_dispatch import TorchDispatchMode
import linear_operator as lo
from linear_operator.operators import *
from linear_operator import settings

class Log(TorchDispatchMode):
    def __init__(self): super().__init__(); self.ops=collections.Counter()
    def __torch_dispatch__(self, func, types, args=(), kwargs=None):
        self.ops[str(func)] += 1
        return func(*args, **(kwargs or {}))

def run(name, f):
    with Log() as m:
        try:
            f()
        except Exception as e:
            print(name, "EXC", type(e), e)
    print("==", name, len(m.ops)); print("  ", dict(m.ops))
    return m.ops
allops=collections.Counter()
torch.manual_seed(0)
A=torch.randn(2,2,dtype=torch.double); B=torch.randn(2,2,dtype=torch.double)
K=KroneckerProductLinearOperator(DenseLinearOperator(A@A.T+torch.eye(2)),DenseLinearOperator(B@B.T+torch.eye(2)))
rhs=torch.randn(4,2,dtype=torch.double)
allops+=run("kron matmul", lambda: K@rhs)
allops+=run("kron to_dense", lambda: K.to_dense())
allops+=run("kron solve", lambda: K.solve(rhs))
allops+=run("kron getitem", lambda: K[1:3, torch.tensor([0,2])].to_dense())
T=ToeplitzLinearOperator(torch.tensor([4.,1.,.5],dtype=torch.double))
allops+=run("toeplitz matmul", lambda: T@torch.randn(3,2,dtype=torch.double))
allops+=run("toeplitz getidx", lambda: T[torch.tensor([0,2]),torch.tensor([1,1])])
D=DenseLinearOperator(A@A.T+torch.eye(2,dtype=torch.double))
allops+=run("dense logdet chol", lambda: D.logdet())
with settings.max_cholesky_size(0):
    allops+=run("dense solve CG", lambda: D.clone().solve(torch.randn(2,1,dtype=torch.double)))
    allops+=run("dense logdet SLQ", lambda: D.clone().logdet())
def g():
    a=A.clone().requires_grad_(True)
    (DenseLinearOperator(a@a.T+torch.eye(2,dtype=torch.double)).inv_quad(rhs[:2])).sum().backward()
allops+=run("inv_quad backward", g)
idx=torch.tensor([[0,1],[1,2],[0,2]]); val=torch.rand(3,2,dtype=torch.double)
I=InterpolatedLinearOperator(D, idx[:, :2]%2, val, idx%2, val)
allops+=run("interp matmul", lambda: I@torch.randn(3,2,dtype=torch.double))
allops+=run("interp dense", lambda: I.to_dense())
print(sorted(allops))
print(len(allops))
