import linear_operator.settings as S

class _VC(S._value_context):
    _global_value = 7

def _scoped(k0: int, k1: int, k2: int, k3: int, k4: int, k5: int, v0: int, v1: int) -> bool:
    """
    pre: all(0 <= k <= 2 for k in (k0,k1,k2,k3,k4,k5))
    post: _
    """
    _VC._global_value = 7
    pending = []
    stack = []
    ok = True
    vals = [v0, v1, 11, 12, 13, 14]
    n = 0
    for k in (k0, k1, k2, k3, k4, k5):
        if k == 0:
            pending.append(_VC(vals[n])); n += 1
        elif k == 1 and pending:
            c = pending.pop()
            before = _VC.value()
            c.__enter__()
            if _VC.value() != c._instance_value: ok = False
            stack.append((c, before))
        elif k == 2 and stack:
            c, before = stack.pop()
            c.__exit__(None, None, None)
            if _VC.value() != before: ok = False
    return ok
