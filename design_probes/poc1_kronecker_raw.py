# POC: symbolic shadow execution of aten ops on z3 reals
import torch, numpy as np, z3, time, warnings, operator, functools
from fractions import Fraction
from numpy.lib.stride_tricks import as_strided
from torch.utils._python_dispatch import TorchDispatchMode
from torch.utils._pytree import tree_flatten, tree_map
warnings.simplefilter("ignore")

def is_c(x): return isinstance(x,(Fraction,int,bool))
def lift(x):
    if isinstance(x,(Fraction,int)): return z3.RealVal(str(Fraction(x))) if not isinstance(x,bool) else x
    return x
def add(a,b):
    if is_c(a) and is_c(b): return a+b
    if is_c(a) and a==0: return b
    if is_c(b) and b==0: return a
    return lift(a)+lift(b)
def mul(a,b):
    if is_c(a) and is_c(b): return a*b
    if is_c(a):
        if a==0: return 0
        if a==1: return b
    if is_c(b):
        if b==0: return 0
        if b==1: return a
    return lift(a)*lift(b)
def neg(a): return -a if is_c(a) else -a
def sub(a,b): return add(a,neg(b))
uadd=np.frompyfunc(add,2,1); umul=np.frompyfunc(mul,2,1); uneg=np.frompyfunc(neg,1,1)
def tofrac(v):
    return Fraction(v) if isinstance(v,float) else v
def mm(a,b):
    n,k=a.shape; k2,m=b.shape
    out=np.empty((n,m),dtype=object)
    for i in range(n):
        for j in range(m):
            s=0
            for l in range(k): s=add(s,mul(a[i,l],b[l,j]))
            out[i,j]=s
    return out

class Sym(TorchDispatchMode):
    def __init__(self):
        super().__init__(); self.store={}; self.keep=[]; self.nops=0; self.unk=set()
    def key(self,t): return t.untyped_storage()._cdata
    def has(self,t): return isinstance(t,torch.Tensor) and self.key(t) in self.store
    def view_of(self,t,buf):
        return as_strided(buf,shape=tuple(t.shape),strides=tuple(s*8 for s in t.stride()))[...] if t.dim() else as_strided(buf[t.storage_offset():],shape=(),strides=())
    def sym(self,t):
        if self.has(t):
            buf=self.store[self.key(t)]
            return as_strided(buf[t.storage_offset():],shape=tuple(t.shape),strides=tuple(s*8 for s in t.stride()))
        # concrete lift
        with torch._C._DisableTorchDispatch() if False else self._off():
            vals=t.detach().reshape(-1).tolist()
        arr=np.empty(len(vals),dtype=object)
        for i,v in enumerate(vals): arr[i]=tofrac(v)
        return arr.reshape(tuple(t.shape))
    def _off(self):
        import contextlib
        return torch.utils._python_dispatch._disable_current_modes()
    def new(self,t,vals):
        nel=t.untyped_storage().nbytes()//t.element_size()
        buf=np.empty(max(nel,1),dtype=object); buf[:]=0
        self.store[self.key(t)]=buf; self.keep.append(t)
        v=as_strided(buf[t.storage_offset():],shape=tuple(t.shape),strides=tuple(s*8 for s in t.stride()))
        v[...]=np.broadcast_to(vals,tuple(t.shape))
    def fresh(self,t,name):
        self.new(t,np.array([z3.Real(f"{name}_{i}") for i in range(t.numel())],dtype=object).reshape(tuple(t.shape)))
        return t
    def __torch_dispatch__(self, func, types, args=(), kwargs=None):
        kwargs=kwargs or {}
        flat,_=tree_flatten((args,kwargs))
        tens=[a for a in flat if isinstance(a,torch.Tensor)]
        anysym=any(self.has(t) for t in tens)
        out=func(*args,**kwargs)
        self.nops+=1
        if not anysym: return out
        name=func._schema.name.split("::")[1]
        outs=[o for o in tree_flatten(out)[0] if isinstance(o,torch.Tensor)]
        inkeys={self.key(t) for t in tens if self.has(t)}
        # view op: output shares storage with sym input
        if not func._schema.is_mutable and all(self.key(o) in inkeys for o in outs):
            return out
        S=self.sym
        if name in("mm",): r=mm(S(args[0]),S(args[1]))
        elif name=="bmm":
            a,b=S(args[0]),S(args[1]); r=np.stack([mm(a[i],b[i]) for i in range(a.shape[0])])
        elif name in("clone","_unsafe_view","_to_copy","contiguous","alias","detach","expand","view","reshape","_reshape_alias"):
            r=S(args[0]).reshape(tuple(out.shape)) if name!="expand" else np.broadcast_to(S(args[0]),tuple(out.shape))
        elif name=="add": r=uadd(S(args[0]),umul(S(args[1]) if isinstance(args[1],torch.Tensor) else tofrac(args[1]),tofrac(kwargs.get("alpha",1))))
        elif name=="sub": r=uadd(S(args[0]),uneg(S(args[1])))
        elif name=="mul": r=umul(S(args[0]),S(args[1]) if isinstance(args[1],torch.Tensor) else tofrac(args[1]))
        elif name=="sum":
            a=S(args[0]); dims=args[1] if len(args)>1 and args[1] is not None else list(range(a.ndim))
            keep=args[2] if len(args)>2 else False
            r=a
            for d in sorted([d%a.ndim for d in dims],reverse=True):
                r=functools.reduce(uadd,[np.take(r,i,axis=d) for i in range(r.shape[d])])
                if keep: r=np.expand_dims(r,d)
            r=np.asarray(r,dtype=object)
        else:
            self.unk.add(str(func)); raise NotImplementedError(str(func))
        if func._schema.is_mutable:
            tgt=args[0] if name.endswith("_") else kwargs.get("out")
            S(tgt)[...]=r
        else:
            self.new(outs[0],r)
        return out

def check_equal(m,a,b,timeout=60000):
    A=m.sym(a).reshape(-1); B=m.sym(b).reshape(-1)
    s=z3.Solver(); s.set("timeout",timeout)
    s.add(z3.Or([lift(x)!=lift(y) for x,y in zip(A,B)]))
    t=time.time(); r=s.check(); return str(r),time.time()-t,(s.model() if str(r)=="sat" else None)

if __name__=="__main__":
    from linear_operator.operators import *
    dt=torch.double
    for n1,n2,c in [(2,2,1),(2,2,2),(2,3,2),(3,3,2)]:
        with Sym() as m:
            A=m.fresh(torch.randn(n1,n1,dtype=dt),"a"); B=m.fresh(torch.randn(n2,n2,dtype=dt),"b"); X=m.fresh(torch.randn(n1*n2,c,dtype=dt),"x")
            K=KroneckerProductLinearOperator(DenseLinearOperator(A),DenseLinearOperator(B))
            t0=time.time()
            out=K@X
            ref=torch.kron(A,B) if False else (A[:,None,:,None]*B[None,:,None,:]).reshape(n1*n2,n1*n2)@X
            t1=time.time()
            print(n1,n2,c,"trace",round(t1-t0,2),check_equal(m,out,ref)[:2], "ops",m.nops)
            outT=K.mT@X
            refT=(A[:,None,:,None]*B[None,:,None,:]).reshape(n1*n2,n1*n2).mT@X
            print("  transpose",check_equal(m,outT,refT)[:2])
            # mutant: compare with kron(B,A)
            bad=(B[:,None,:,None]*A[None,:,None,:]).reshape(n1*n2,n1*n2)@X
            r=check_equal(m,out,bad); print("  mutant",r[:2])
