import time
from sympy.polys.fields import field
from sympy.polys.domains import QQ
names="ta tb wa0 wa1 wb0 wb1 sig b0 b1 b2 b3".split()
F,*g=field(names,QQ); ta,tb,wa0,wa1,wb0,wb1,sig,b0,b1,b2,b3=g
ZERO=F.zero; ONE=F.one
def S(xs):
    s=xs[0]
    for x in xs[1:]: s=s+x
    return s
def mm(A,B): return [[S([A[i][k]*B[k][j] for k in range(len(B))]) for j in range(len(B[0]))] for i in range(len(A))]
def T(A): return [list(r) for r in zip(*A)]
def kron(A,B): return [[A[i][k]*B[j][l] for k in range(len(A[0])) for l in range(len(B[0]))] for i in range(len(A)) for j in range(len(B))]
def diag(v): return [[v[i] if i==j else ZERO for j in range(len(v))] for i in range(len(v))]
def rot(t):
    d=1+t*t; c=(1-t*t)/d; s=2*t/d; return [[c,-s],[s,c]]
for mutant in (False,True):
    t0=time.time()
    Qa=rot(ta); Qb=rot(tb); wa=[wa0,wa1]; wb=[wb0,wb1]
    A=mm(mm(Qa,diag(wa)),T(Qa)); B=mm(mm(Qb,diag(wb)),T(Qb))
    K=kron(A,B); n=4
    Kd=[[K[i][j]+(sig if i==j else ZERO) for j in range(n)] for i in range(n)]
    b=[[b0],[b1],[b2],[b3]]
    ev=[x*y for x in wa for y in wb]
    inv2=diag([ONE/(e+sig) for e in ev])
    Qk=kron(Qa,Qb)
    x=mm(mm(Qk,inv2),mm(T(Qk),b)) if not mutant else mm(mm(Qk,inv2),mm(Qk,b))
    Kx=mm(Kd,x)
    diffs=[Kx[i][0]-b[i][0] for i in range(n)]
    print("mutant" if mutant else "orig",[d==0 for d in diffs],round(time.time()-t0,2))
