from typing import List, Tuple
import linear_operator.settings as S

class _VC(S._value_context):
    _global_value = 7

def _scoped(events: List[Tuple[int,int]]) -> bool:
    """
    pre: len(events) <= 5
    pre: all(0 <= k <= 2 and -3 <= v <= 3 for k, v in events)
    post: _
    """
    # event kinds: 0 = construct ctx with value v ; 1 = enter most recently constructed-not-entered ; 2 = exit innermost
    _VC._global_value = 7
    pending = []
    stack = []   # (ctx, value_before_entry)
    ok = True
    for k, v in events:
        if k == 0:
            pending.append(_VC(v))
        elif k == 1 and pending:
            c = pending.pop()
            before = _VC.value()
            c.__enter__()
            if _VC.value() != c._instance_value: ok = False
            stack.append((c, before))
        elif k == 2 and stack:
            c, before = stack.pop()
            c.__exit__(None, None, None)
            if _VC.value() != before: ok = False
    return ok
