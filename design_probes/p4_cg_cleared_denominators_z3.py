# CG n=2 with explicit (num,den) rational normal form -> pure polynomial identity
import z3, time, sys
class Q:
    __slots__=("n","d")
    def __init__(s,n,d=None): s.n=n; s.d=z3.RealVal(1) if d is None else d
    def __add__(a,b): return Q(a.n*b.d+b.n*a.d, a.d*b.d)
    def __sub__(a,b): return Q(a.n*b.d-b.n*a.d, a.d*b.d)
    def __mul__(a,b): return Q(a.n*b.n, a.d*b.d)
    def __truediv__(a,b): return Q(a.n*b.d, a.d*b.n)
def dot(u,v):
    s=u[0]*v[0]
    for x,y in zip(u[1:],v[1:]): s=s+x*y
    return s
def mv(A,v): return [dot(r,v) for r in A]
def run(n,iters,mutant=False,simp=True):
    L=[[Q(z3.Real(f"l{i}{j}")) if j<=i else Q(z3.RealVal(0)) for j in range(n)] for i in range(n)]
    cons=[L[i][i].n>0 for i in range(n)]
    A=[[dot(L[i],L[j]) for j in range(n)] for i in range(n)]
    rhs=[Q(z3.Real(f"r{i}")) for i in range(n)]
    x=[Q(z3.RealVal(0))]*n; r=list(rhs); p=list(r); rr=dot(r,r)
    dens=[]
    for k in range(iters):
        Ap=mv(A,p); pAp=dot(p,Ap); alpha=rr/pAp; dens+= [pAp.n, rr.n]
        x=[xi+alpha*pi for xi,pi in zip(x,p)]
        r=[ri-alpha*api for ri,api in zip(r,Ap)] if not mutant else [ri+alpha*api for ri,api in zip(r,Ap)]
        rr2=dot(r,r); beta=rr2/rr; rr=rr2
        p=[ri+beta*pi for ri,pi in zip(r,p)]
    Ax=mv(A,x)
    s=z3.Solver(); s.set("timeout",300000); s.add(cons)
    for d in dens: s.add(d!=0)
    goal=z3.Or([ (u.n*v.d - v.n*u.d)!=0 for u,v in zip(Ax,rhs)])
    t=time.time()
    if simp:
        goal=z3.simplify(goal,som=True,arith_lhs=True)
        print("  simplified in",round(time.time()-t,2), "size", len(goal.sexpr()))
    s.add(goal)
    for u in Ax: s.add(u.d!=0)
    res=s.check(); return res, round(time.time()-t,2)
print("n2", run(2,2))
print("n2 mutant", run(2,2,mutant=True))
if len(sys.argv)>1: print("n3", run(3,3))
