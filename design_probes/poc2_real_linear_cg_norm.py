# POC v2: symbolic shadow execution with in-place/out= aliasing model, Bool cells, sqrt atoms, generic cuts,
# and NORM-mode normaliser (z3 DAG -> (num,den) sparse polys mod r^2->radicand).  Drives the REAL linear_cg.
import torch, numpy as np, z3, time, warnings, functools, itertools, sys
from fractions import Fraction
from numpy.lib.stride_tricks import as_strided
from torch.utils._python_dispatch import TorchDispatchMode
from torch.utils._pytree import tree_flatten
warnings.simplefilter("ignore")
def isc(x): return isinstance(x,(Fraction,int,bool,float))
def L(x):
    if isinstance(x,bool): return z3.BoolVal(x)
    if isinstance(x,(Fraction,int)): return z3.RealVal(str(Fraction(x)))
    if isinstance(x,float): return z3.RealVal(str(Fraction(x)))
    return x
def fr(v): return Fraction(v) if isinstance(v,float) else v
def add(a,b):
    if isc(a) and isc(b): return fr(a)+fr(b)
    if isc(a) and a==0: return b
    if isc(b) and b==0: return a
    return L(a)+L(b)
def mul(a,b):
    if isc(a) and isc(b): return fr(a)*fr(b)
    for x,y in ((a,b),(b,a)):
        if isc(x):
            if x==0: return 0
            if x==1: return y
    return L(a)*L(b)
def neg(a): return -fr(a) if isc(a) else -a
def div(a,b):
    if isc(a) and isc(b): return fr(a)/fr(b)
    if isc(b) and b==1: return a
    if isc(a) and a==0: return 0
    return L(a)/L(b)
def lt(a,b): return (fr(a)<fr(b)) if isc(a) and isc(b) else L(a)<L(b)
def ite(c,a,b):
    if isinstance(c,bool): return a if c else b
    return z3.If(c,L(a),L(b))
U=lambda f,n: np.frompyfunc(f,n,1)
uadd,umul,udiv,ult=U(add,2),U(mul,2),U(div,2),U(lt,2); uneg=U(neg,1); uite=U(ite,3)
class Eng(TorchDispatchMode):
    def __init__(s):
        super().__init__(); s.store={}; s.keep=[]; s.side=[]; s.cuts=[]; s.sq={}; s.log=[]; s.writes=[]; s.owned=set()
    def key(s,t): return t.untyped_storage()._cdata
    def has(s,t): return isinstance(t,torch.Tensor) and t.layout==torch.strided and s.key(t) in s.store
    def view(s,t):
        buf=s.store[s.key(t)]
        return as_strided(buf[t.storage_offset():],shape=tuple(t.shape),strides=tuple(k*8 for k in t.stride()))
    def sym(s,t):
        if not isinstance(t,torch.Tensor): return fr(t)
        if s.has(t): return s.view(t)
        with torch.utils._python_dispatch._disable_current_modes():
            vals=t.detach().reshape(-1).tolist()
        a=np.empty(len(vals),dtype=object)
        for i,v in enumerate(vals): a[i]=fr(v)
        return a.reshape(tuple(t.shape))
    def alloc(s,t):
        nel=max(t.untyped_storage().nbytes()//t.element_size(),1)
        buf=np.empty(nel,dtype=object); buf[:]=0; s.store[s.key(t)]=buf; s.keep.append(t)
    def new(s,t,vals):
        s.alloc(t); s.view(t)[...]=np.broadcast_to(vals,tuple(t.shape))
    def write(s,t,vals):
        if not s.has(t): s.new(t, s.sym(t))   # promote concrete buffer to symbolic
        if s.key(t) in s.owned: s.writes.append(t)
        s.view(t)[...]=np.broadcast_to(vals,tuple(t.shape))
    def leaf(s,t,name,owned=True):
        s.new(t,np.array([z3.Real(f"{name}{i}") for i in range(t.numel())],dtype=object).reshape(tuple(t.shape)))
        if owned: s.owned.add(s.key(t))
        return t
    def sqrt(s,x):
        if isc(x):
            import math
            r=Fraction(math.isqrt(fr(x).numerator),1)/Fraction(math.isqrt(fr(x).denominator),1)
            if r*r==fr(x): return r
        k=x.get_id() if not isc(x) else ("c",x)
        if k not in s.sq:
            r=z3.Real(f"sqrt!{len(s.sq)}"); s.sq[k]=(r,L(x)); s.side+=[r>=0, r*r==L(x)]
        return s.sq[k][0]
    def red(s,a,dims,keep,f=add):
        r=a
        for d in sorted([d%a.ndim for d in dims],reverse=True):
            r=functools.reduce(U(f,2),[np.take(r,i,axis=d) for i in range(r.shape[d])])
            r=np.asarray(r,dtype=object)
            if keep: r=np.expand_dims(r,d)
        return r
    def __torch_dispatch__(s,func,types,args=(),kwargs=None):
        kwargs=kwargs or {}
        name=func._schema.name.split("::")[1]; ov=func._overloadname
        flat=tree_flatten((args,kwargs))[0]; tens=[a for a in flat if isinstance(a,torch.Tensor)]
        anysym=any(s.has(t) for t in tens)
        # data-dependent control flow
        if name in("_local_scalar_dense","equal","is_nonzero") and anysym:
            if name=="equal": return True
            c=s.sym(args[0]).reshape(-1)[0]
            if isinstance(c,bool) or isc(c): return c
            s.cuts.append(("branch False",c)); s.side.append(z3.Not(c)) if z3.is_bool(c) else None
            return False
        out=func(*args,**kwargs)
        if not anysym: return out
        s.log.append(str(func))
        outs=[o for o in tree_flatten(out)[0] if isinstance(o,torch.Tensor)]
        inkeys={s.key(t) for t in tens if s.has(t)}
        mutable=func._schema.is_mutable
        if not mutable and outs and all(s.key(o) in inkeys for o in outs): return out   # view
        S=s.sym; A=lambda i: S(args[i])
        tgt=None
        if mutable: tgt=kwargs.get("out") if "out" in kwargs else args[0]
        if name in("clone","_to_copy","contiguous","alias","detach","lift_fresh","zeros_like","empty_like","resize_as_"):
            if name in("zeros_like",): r=np.zeros(tuple(out.shape),dtype=object)
            elif name in("empty_like","resize_as_"): r=np.zeros(tuple(out.shape),dtype=object)
            else: r=A(0)
            if name=="resize_as_": s.alloc(args[0]); return out
        elif name=="mm":
            a,b=A(0),A(1); r=np.empty((a.shape[0],b.shape[1]),dtype=object)
            for i,j in itertools.product(range(a.shape[0]),range(b.shape[1])):
                acc=0
                for l in range(a.shape[1]): acc=add(acc,mul(a[i,l],b[l,j]))
                r[i,j]=acc
        elif name in("add","add_"): r=uadd(A(0),umul(A(1),fr(kwargs.get("alpha",1))))
        elif name in("sub","sub_"): r=uadd(A(0),uneg(umul(A(1),fr(kwargs.get("alpha",1)))))
        elif name in("mul","mul_"): r=umul(A(0),A(1))
        elif name in("div","div_"): r=udiv(A(0),A(1))
        elif name=="neg": r=uneg(A(0))
        elif name=="addcmul": r=uadd(A(0),umul(fr(kwargs.get("value",1)),umul(A(1),A(2))))
        elif name=="copy_": r=A(1)
        elif name=="lt": r=ult(A(0),A(1))
        elif name in("masked_fill_","masked_fill"):
            m=A(1); 
            # generic-case cut: assume symbolic masks are False (record it)
            mm_=np.broadcast_to(m,A(0).shape)
            for c in set(x for x in mm_.reshape(-1) if not isinstance(x,bool)): s.cuts.append(("mask False",c)); s.side.append(z3.Not(c))
            r=uite(np.vectorize(lambda c: c if isinstance(c,bool) else False,otypes=[object])(mm_),fr(args[2]),A(0))
        elif name=="sum":
            a=A(0); dims=args[1] if len(args)>1 and args[1] is not None else list(range(a.ndim))
            r=s.red(a,dims,args[2] if len(args)>2 else kwargs.get("keepdim",False))
        elif name=="mean":
            a=A(0); r=udiv(s.red(a,list(range(a.ndim)),False),a.size)
        elif name=="linalg_vector_norm":
            a=A(0); dims=args[2] if len(args)>2 and args[2] is not None else list(range(a.ndim)); keep=args[3] if len(args)>3 else False
            r=U(s.sqrt,1)(s.red(umul(a,a),dims,keep))
        elif name=="all":
            a=A(0).reshape(-1); r=np.array(functools.reduce(lambda x,y: (x and y) if isinstance(x,bool) and isinstance(y,bool) else z3.And(L(x),L(y)),a),dtype=object)
        elif name=="expand": r=np.broadcast_to(A(0),tuple(out.shape))
        else: raise NotImplementedError(str(func))
        r=np.asarray(r,dtype=object)
        if mutable: s.write(tgt,r)
        else: s.new(outs[0],r.reshape(tuple(outs[0].shape)) if r.size==outs[0].numel() else r)
        return out

# ---------- NORM: z3 DAG -> (num,den) polys modulo r^2 -> radicand -------------
from sympy.polys.rings import ring
from sympy.polys.domains import QQ
CANCEL=int(sys.argv[1]) if len(sys.argv)>1 else 0
def normal_forms(eng, terms):
    vars_=set()
    def collect(t,seen=set()):
        if t.get_id() in seen: return
        seen.add(t.get_id())
        if z3.is_const(t) and t.decl().kind()==z3.Z3_OP_UNINTERPRETED: vars_.add(str(t))
        for c in t.children(): collect(c,seen)
    for t in terms: collect(L(t))
    for r,x in eng.sq.values(): collect(x); vars_.add(str(r))
    names=sorted(vars_); R,*gens=ring(names,QQ); G=dict(zip(names,gens)); idx={n:i for i,n in enumerate(names)}
    cache={}; rad={}
    def red(p):
        while True:
            hit=False; out=R.zero
            for mon,coef in p.terms():
                m=list(mon); f=None
                for rn,(rnum,rden) in rad.items():
                    i=idx[rn]
                    if m[i]>=2:
                        assert rden==R.one, "rational radicand"
                        k=m[i]//2; m[i]-=2*k; f=(rnum**k) if f is None else f*rnum**k; hit=True
                t=R.term_new(tuple(m),coef); out+= t if f is None else t*f
            p=out
            if not hit: return p
    def conv(t):
        k=t.get_id()
        if k in cache: return cache[k]
        if z3.is_rational_value(t) or z3.is_int_value(t):
            f=Fraction(t.numerator_as_long(),t.denominator_as_long()) if z3.is_rational_value(t) else Fraction(t.as_long())
            res=(R(QQ(f.numerator,f.denominator)),R.one)
        elif z3.is_const(t): res=(G[str(t)],R.one)
        else:
            kind=t.decl().kind(); ch=[conv(c) for c in t.children()]
            if kind==z3.Z3_OP_ADD:
                n,d=ch[0]
                for n2,d2 in ch[1:]:
                    if d==d2: n=n+n2
                    else: n,d=n*d2+n2*d,d*d2
                res=(red(n),red(d))
            elif kind==z3.Z3_OP_SUB:
                n,d=ch[0]
                for n2,d2 in ch[1:]:
                    if d==d2: n=n-n2
                    else: n,d=n*d2-n2*d,d*d2
                res=(red(n),red(d))
            elif kind==z3.Z3_OP_MUL:
                n,d=ch[0]
                for n2,d2 in ch[1:]: n,d=n*n2,d*d2
                res=(red(n),red(d))
            elif kind==z3.Z3_OP_UMINUS: res=(-ch[0][0],ch[0][1])
            elif kind==z3.Z3_OP_DIV: res=(red(ch[0][0]*ch[1][1]),red(ch[0][1]*ch[1][0]))
            else: raise NotImplementedError(t.decl())
        n_,d_=res
        if CANCEL and d_!=R.one and (len(n_.terms())+len(d_.terms()))>CANCEL:
            n_,d_=n_.cancel(d_); res=(n_,d_)
        cache[k]=res; return res
    # radicands, in creation order (tower)
    for r,x in sorted(eng.sq.values(),key=lambda p:int(str(p[0]).split("!")[1])):
        rad[str(r)]=conv(x)
    return [conv(L(t)) for t in terms],R,red

if __name__=="__main__":
    from linear_operator.utils.linear_cg import linear_cg
    from linear_operator import settings
    dt=torch.double; n=2
    torch.manual_seed(0)
    for mutant in (False,True):
        with Eng() as m:
            Lm=torch.tril(torch.rand(n,n,dtype=dt)+0.5)
            m.new(Lm,np.array([[z3.Real(f"l{i}{j}") if j<=i else 0 for j in range(n)] for i in range(n)],dtype=object)); m.owned.add(m.key(Lm))
            A=Lm@Lm.mT
            b=m.leaf(torch.randn(n,1,dtype=dt),"b")
            t0=time.time()
            Amut=A if not mutant else A+torch.eye(n,dtype=dt)*0.5
            x=linear_cg(lambda v: Amut@v, b, max_iter=n, max_tridiag_iter=n, tolerance=1e-30)
            t1=time.time()
            lhs=m.sym(A@x).reshape(-1); rhs=m.sym(b).reshape(-1)
            print("ops",len(m.log),"distinct",len(set(m.log)),"cuts",len(m.cuts),"sqrt atoms",len(m.sq),"writes to caller storage",len(m.writes),"trace s",round(t1-t0,2))
            nf,R,red=normal_forms(m,list(lhs)+list(rhs))
            res=[red(nf[i][0]*nf[i+n][1]-nf[i+n][0]*nf[i][1]) for i in range(n)]
            print("mutant" if mutant else "orig","NORM zero:",[r==0 for r in res],"terms",[len(r.terms()) for r in res],"total s",round(time.time()-t0,2))
