"""CrossHair harnesses for C17: the REAL settings base classes under symbolic event histories.

Events are scalar ints (a symbolic List[Tuple] does not terminate, see DESIGN §9).  Each harness replays a history of
up to 6 events on fresh subclasses of the real base class (so the library's own global state is untouched), next to a
reference model: a stack of "value in force immediately before entry".  post: the real classes report the model's value
after every event.

event kinds:  0 = construct a new context object for class A     1 = construct one for class B
              2 = enter the most recently constructed, not yet entered object (a `with` statement begins)
              3 = leave the innermost active `with` block normally      4 = leave it by an exception
              5 = re-enter the innermost *active* object again (re-used context object)
"""
import linear_operator.settings as S
import torch


# ---------------------------------------------------------------- _value_context
class _VA(S._value_context):
    _global_value = 7


class _VB(S._value_context):
    _global_value = 70


def _impl_value_history(k0: int, k1: int, k2: int, k3: int, k4: int, k5: int, v0: int, v1: int, v2: int) -> bool:
    _VA._global_value = 7
    _VB._global_value = 70
    model = {_VA: 7, _VB: 70}
    pending = []
    active = []  # (object, cls, value in force immediately before entry)
    vals = [v0, v1, v2, 101, 102, 103]
    n = 0
    for k in (k0, k1, k2, k3, k4, k5):
        if k == 0 or k == 1:
            cls = _VA if k == 0 else _VB
            pending.append((cls(vals[n]), cls, vals[n]))
            n += 1
        elif k == 2 and pending:
            c, cls, v = pending.pop()
            active.append((c, cls, model[cls], v))
            c.__enter__()
            model[cls] = v
        elif (k == 3 or k == 4) and active:
            c, cls, before, v = active.pop()
            if k == 3:
                c.__exit__(None, None, None)
            else:
                c.__exit__(ValueError, ValueError("x"), None)
            model[cls] = before
        elif k == 5 and active:
            c, cls, before, v = active[-1]
            active.append((c, cls, model[cls], v))
            c.__enter__()
            model[cls] = v
        if _VA.value() != model[_VA] or _VB.value() != model[_VB]:
            return False
    return True


def _value_history_reach(k0: int, k1: int, k2: int, k3: int, k4: int, k5: int, v0: int, v1: int, v2: int) -> bool:
    """
    pre: 0 <= k0 <= 5 and 0 <= k1 <= 5 and 0 <= k2 <= 5 and 0 <= k3 <= 5 and 0 <= k4 <= 5 and 0 <= k5 <= 5
    post: not _
    """
    # reachability twin: a history that enters two nested blocks and leaves both must exist (post must be REFUTED)
    return k0 == 0 and k1 == 2 and k2 == 1 and k3 == 2 and k4 == 3 and k5 == 4 and v0 != v1


# ---------------------------------------------------------------- _feature_flag
class _FA0(S._feature_flag):
    _default = False


class _FB0(S._feature_flag):
    _default = True


_FLAG_CLASSES = None


def _impl_flag_history(k0: int, k1: int, k2: int, k3: int, k4: int, k5: int, s0: bool, s1: bool, s2: bool) -> bool:
    _FA, _FB = _FLAG_CLASSES or (_FA0, _FB0)
    _FA._state = None
    _FB._state = None
    model = {_FA: None, _FB: None}
    pending = []
    active = []
    vals = [s0, s1, s2, True, False, True]
    n = 0
    for k in (k0, k1, k2, k3, k4, k5):
        if k == 0 or k == 1:
            cls = _FA if k == 0 else _FB
            pending.append((cls(vals[n]), cls, vals[n]))
            n += 1
        elif k == 2 and pending:
            c, cls, v = pending.pop()
            active.append((c, cls, model[cls], v))
            c.__enter__()
            model[cls] = v
        elif (k == 3 or k == 4) and active:
            c, cls, before, v = active.pop()
            if k == 3:
                c.__exit__(None, None, None)
            else:
                c.__exit__(ValueError, ValueError("x"), None)
            model[cls] = before
        elif k == 5 and active:
            c, cls, before, v = active[-1]
            active.append((c, cls, model[cls], v))
            c.__enter__()
            model[cls] = v
        for cls in (_FA, _FB):
            want = cls._default if model[cls] is None else model[cls]
            if cls.on() != want or cls.off() != (not want) or cls.is_default() != (model[cls] is None):
                return False
    return True


# ---------------------------------------------------------------- _dtype_value_context
class _DA(S._dtype_value_context):
    _global_float_value = 3
    _global_double_value = None
    _global_half_value = 5


def _opt(v: int):
    return None if v < 0 else v


def _impl_dtype_history(k0: int, k1: int, k2: int, k3: int, k4: int, f0: int, d0: int, f1: int, d1: int, h1: int) -> bool:
    _DA._global_float_value = 3
    _DA._global_double_value = None
    _DA._global_half_value = 5
    model = [3, None, 5]
    pending = []
    active = []
    args = [(_opt(f0), _opt(d0), None), (None, 4, 6), (9, None, None), (None, 8, None), (None, None, None)]
    n = 0
    for k in (k0, k1, k2, k3, k4):
        if k == 0:
            a = args[n]
            pending.append((_DA(float_value=a[0], double_value=a[1], half_value=a[2]), a))
            n += 1
        elif k == 2 and pending:
            c, a = pending.pop()
            active.append((c, list(model), a))
            c.__enter__()
            model = [a[i] if a[i] is not None else model[i] for i in range(3)]
        elif (k == 3 or k == 4) and active:
            c, before, a = active.pop()
            if k == 3:
                c.__exit__(None, None, None)
            else:
                c.__exit__(ValueError, ValueError("x"), None)
            model = before
        elif k == 5 and active:
            c, before, a = active[-1]
            active.append((c, list(model), a))
            c.__enter__()
            model = [a[i] if a[i] is not None else model[i] for i in range(3)]
        if _DA.value(torch.float) != model[0] or _DA.value(torch.double) != model[1] or _DA.value(torch.half) != model[2]:
            return False
    return True


# ---------------------------------------------------------------- composites (real classes; their members are real settings)
def _impl_fast_computations_history(k0: int, k1: int, k2: int, k3: int, k4: int, a0: bool, b0: bool, c0: bool, a1: bool, b1: bool,
                               c1: bool) -> bool:
    members = (S._fast_covar_root_decomposition, S._fast_log_prob, S._fast_solves)
    saved = [m._state for m in members]
    other_before = (S.debug._state, S.memory_efficient._state, S.max_cholesky_size.value())
    for m in members:
        m._state = None
    ok = True
    model = [None, None, None]
    pending = []
    active = []
    args = [(a0, b0, c0), (a1, b1, c1), (True, False, True), (False, False, False), (True, True, True)]
    n = 0
    for k in (k0, k1, k2, k3, k4):
        if k == 0:
            a = args[n]
            pending.append((S.fast_computations(covar_root_decomposition=a[0], log_prob=a[1], solves=a[2]), a))
            n += 1
        elif k == 2 and pending:
            c, a = pending.pop()
            active.append((c, list(model), a))
            c.__enter__()
            model = list(a)
        elif (k == 3 or k == 4) and active:
            c, before, a = active.pop()
            if k == 3:
                c.__exit__(None, None, None)
            else:
                c.__exit__(ValueError, ValueError("x"), None)
            model = before
        elif k == 5 and active:
            c, before, a = active[-1]
            active.append((c, list(model), a))
            c.__enter__()
            model = list(a)
        for m, want in zip(members, model):
            w = m._default if want is None else want
            if m.on() != w:
                ok = False
        if (S.debug._state, S.memory_efficient._state, S.max_cholesky_size.value()) != other_before:
            ok = False
    for m, s in zip(members, saved):
        m._state = s
    return ok


def _impl_linalg_dtypes_history(k0: int, k1: int, k2: int, k3: int, k4: int, d0: int, s0: int, c0: int, d1: int, s1: int,
                           c1: int) -> bool:
    dts = [torch.float, torch.double, torch.half, None]
    members = (S._linalg_dtype_symeig, S._linalg_dtype_cholesky)
    saved = [m._global_value for m in members]
    for m in members:
        m._global_value = torch.double
    ok = True
    model = [torch.double, torch.double]
    pending = []
    active = []
    args = [(dts[d0], dts[s0], dts[c0]), (torch.float, None, torch.half), (torch.half, None, None)]
    n = 0
    for k in (k0, k1, k2, k3, k4):
        if k == 0 and n < 3:
            a = args[n]
            pending.append((S.linalg_dtypes(default=a[0], symeig=a[1], cholesky=a[2]), a))
            n += 1
        elif k == 2 and pending:
            c, a = pending.pop()
            active.append((c, list(model), a))
            c.__enter__()
            model = [a[0] if a[1] is None else a[1], a[0] if a[2] is None else a[2]]
        elif (k == 3 or k == 4) and active:
            c, before, a = active.pop()
            if k == 3:
                c.__exit__(None, None, None)
            else:
                c.__exit__(ValueError, ValueError("x"), None)
            model = before
        elif k == 5 and active:
            c, before, a = active[-1]
            active.append((c, list(model), a))
            c.__enter__()
            model = [a[0] if a[1] is None else a[1], a[0] if a[2] is None else a[2]]
        if S._linalg_dtype_symeig.value() != model[0] or S._linalg_dtype_cholesky.value() != model[1]:
            ok = False
    for m, s in zip(members, saved):
        m._global_value = s
    return ok


# ---------------------------------------------------------------- contracts (generated by hand-rolled split on the first two events)

def _value_history_p00(k2: int, k3: int, k4: int, k5: int, v0: int, v1: int, v2: int) -> bool:
    """
    pre: 0 <= k2 <= 5 and 0 <= k3 <= 5 and 0 <= k4 <= 5 and 0 <= k5 <= 5
    post: _
    """
    return _impl_value_history(0, 0, k2, k3, k4, k5, v0, v1, v2)

def _value_history_p01(k2: int, k3: int, k4: int, k5: int, v0: int, v1: int, v2: int) -> bool:
    """
    pre: 0 <= k2 <= 5 and 0 <= k3 <= 5 and 0 <= k4 <= 5 and 0 <= k5 <= 5
    post: _
    """
    return _impl_value_history(0, 1, k2, k3, k4, k5, v0, v1, v2)

def _value_history_p02(k2: int, k3: int, k4: int, k5: int, v0: int, v1: int, v2: int) -> bool:
    """
    pre: 0 <= k2 <= 5 and 0 <= k3 <= 5 and 0 <= k4 <= 5 and 0 <= k5 <= 5
    post: _
    """
    return _impl_value_history(0, 2, k2, k3, k4, k5, v0, v1, v2)

def _value_history_p10(k2: int, k3: int, k4: int, k5: int, v0: int, v1: int, v2: int) -> bool:
    """
    pre: 0 <= k2 <= 5 and 0 <= k3 <= 5 and 0 <= k4 <= 5 and 0 <= k5 <= 5
    post: _
    """
    return _impl_value_history(1, 0, k2, k3, k4, k5, v0, v1, v2)

def _value_history_p11(k2: int, k3: int, k4: int, k5: int, v0: int, v1: int, v2: int) -> bool:
    """
    pre: 0 <= k2 <= 5 and 0 <= k3 <= 5 and 0 <= k4 <= 5 and 0 <= k5 <= 5
    post: _
    """
    return _impl_value_history(1, 1, k2, k3, k4, k5, v0, v1, v2)

def _value_history_p12(k2: int, k3: int, k4: int, k5: int, v0: int, v1: int, v2: int) -> bool:
    """
    pre: 0 <= k2 <= 5 and 0 <= k3 <= 5 and 0 <= k4 <= 5 and 0 <= k5 <= 5
    post: _
    """
    return _impl_value_history(1, 2, k2, k3, k4, k5, v0, v1, v2)

def _flag_history_p00(k2: int, k3: int, k4: int, k5: int, s0: bool, s1: bool, s2: bool) -> bool:
    """
    pre: 0 <= k2 <= 5 and 0 <= k3 <= 5 and 0 <= k4 <= 5 and 0 <= k5 <= 5
    post: _
    """
    return _impl_flag_history(0, 0, k2, k3, k4, k5, s0, s1, s2)

def _flag_history_p01(k2: int, k3: int, k4: int, k5: int, s0: bool, s1: bool, s2: bool) -> bool:
    """
    pre: 0 <= k2 <= 5 and 0 <= k3 <= 5 and 0 <= k4 <= 5 and 0 <= k5 <= 5
    post: _
    """
    return _impl_flag_history(0, 1, k2, k3, k4, k5, s0, s1, s2)

def _flag_history_p02(k2: int, k3: int, k4: int, k5: int, s0: bool, s1: bool, s2: bool) -> bool:
    """
    pre: 0 <= k2 <= 5 and 0 <= k3 <= 5 and 0 <= k4 <= 5 and 0 <= k5 <= 5
    post: _
    """
    return _impl_flag_history(0, 2, k2, k3, k4, k5, s0, s1, s2)

def _flag_history_p10(k2: int, k3: int, k4: int, k5: int, s0: bool, s1: bool, s2: bool) -> bool:
    """
    pre: 0 <= k2 <= 5 and 0 <= k3 <= 5 and 0 <= k4 <= 5 and 0 <= k5 <= 5
    post: _
    """
    return _impl_flag_history(1, 0, k2, k3, k4, k5, s0, s1, s2)

def _flag_history_p11(k2: int, k3: int, k4: int, k5: int, s0: bool, s1: bool, s2: bool) -> bool:
    """
    pre: 0 <= k2 <= 5 and 0 <= k3 <= 5 and 0 <= k4 <= 5 and 0 <= k5 <= 5
    post: _
    """
    return _impl_flag_history(1, 1, k2, k3, k4, k5, s0, s1, s2)

def _flag_history_p12(k2: int, k3: int, k4: int, k5: int, s0: bool, s1: bool, s2: bool) -> bool:
    """
    pre: 0 <= k2 <= 5 and 0 <= k3 <= 5 and 0 <= k4 <= 5 and 0 <= k5 <= 5
    post: _
    """
    return _impl_flag_history(1, 2, k2, k3, k4, k5, s0, s1, s2)

def _dtype_history_p00(k2: int, k3: int, k4: int, f0: int, d0: int, f1: int, d1: int, h1: int) -> bool:
    """
    pre: 0 <= k2 <= 5 and 0 <= k3 <= 5 and 0 <= k4 <= 5 and k2 != 1 and k3 != 1 and k4 != 1
    pre: -1 <= f0 and -1 <= d0 and -1 <= f1 and -1 <= d1 and -1 <= h1
    post: _
    """
    return _impl_dtype_history(0, 0, k2, k3, k4, f0, d0, f1, d1, h1)

def _dtype_history_p02(k2: int, k3: int, k4: int, f0: int, d0: int, f1: int, d1: int, h1: int) -> bool:
    """
    pre: 0 <= k2 <= 5 and 0 <= k3 <= 5 and 0 <= k4 <= 5 and k2 != 1 and k3 != 1 and k4 != 1
    pre: -1 <= f0 and -1 <= d0 and -1 <= f1 and -1 <= d1 and -1 <= h1
    post: _
    """
    return _impl_dtype_history(0, 2, k2, k3, k4, f0, d0, f1, d1, h1)

def _fast_computations_history_p00(k2: int, k3: int, k4: int, a0: bool, b0: bool, c0: bool, a1: bool, b1: bool, c1: bool) -> bool:
    """
    pre: 0 <= k2 <= 5 and 0 <= k3 <= 5 and 0 <= k4 <= 5 and k2 != 1 and k3 != 1 and k4 != 1
    post: _
    """
    return _impl_fast_computations_history(0, 0, k2, k3, k4, a0, b0, c0, a1, b1, c1)

def _linalg_dtypes_history_p00(k2: int, k3: int, k4: int, d0: int, s0: int, c0: int, d1: int, s1: int, c1: int) -> bool:
    """
    pre: 0 <= k2 <= 5 and 0 <= k3 <= 5 and 0 <= k4 <= 5 and k2 != 1 and k3 != 1 and k4 != 1
    pre: 0 <= d0 <= 1 and (s0 == 0 or s0 == 3) and (c0 == 2 or c0 == 3) and d1 == 0 and s1 == 0 and c1 == 0
    post: _
    """
    return _impl_linalg_dtypes_history(0, 0, k2, k3, k4, d0, s0, c0, d1, s1, c1)

def _fast_computations_history_p02(k2: int, k3: int, k4: int, a0: bool, b0: bool, c0: bool, a1: bool, b1: bool, c1: bool) -> bool:
    """
    pre: 0 <= k2 <= 5 and 0 <= k3 <= 5 and 0 <= k4 <= 5 and k2 != 1 and k3 != 1 and k4 != 1
    post: _
    """
    return _impl_fast_computations_history(0, 2, k2, k3, k4, a0, b0, c0, a1, b1, c1)

def _linalg_dtypes_history_p02(k2: int, k3: int, k4: int, d0: int, s0: int, c0: int, d1: int, s1: int, c1: int) -> bool:
    """
    pre: 0 <= k2 <= 5 and 0 <= k3 <= 5 and 0 <= k4 <= 5 and k2 != 1 and k3 != 1 and k4 != 1
    pre: 0 <= d0 <= 1 and (s0 == 0 or s0 == 3) and (c0 == 2 or c0 == 3) and d1 == 0 and s1 == 0 and c1 == 0
    post: _
    """
    return _impl_linalg_dtypes_history(0, 2, k2, k3, k4, d0, s0, c0, d1, s1, c1)

def _flag_history_deterministic_probes_p02(k2: int, k3: int, k4: int, k5: int, s0: bool, s1: bool, s2: bool) -> bool:
    """
    pre: 0 <= k2 <= 5 and 0 <= k3 <= 5 and 0 <= k4 <= 5 and 0 <= k5 <= 5
    post: _
    """
    # the one concrete setting that overrides _set_state (it also clears its probe-vector cache)
    global _FLAG_CLASSES
    saved = S.deterministic_probes._state
    _FLAG_CLASSES = (S.deterministic_probes, _FB0)
    try:
        return _impl_flag_history(0, 2, k2, k3, k4, k5, s0, s1, s2)
    finally:
        _FLAG_CLASSES = None
        S.deterministic_probes._state = saved


HARNESSES = ['_value_history_p00', '_value_history_p01', '_value_history_p02', '_value_history_p10', '_value_history_p11', '_value_history_p12', '_flag_history_p00', '_flag_history_p01', '_flag_history_p02', '_flag_history_p10', '_flag_history_p11', '_flag_history_p12', '_dtype_history_p00', '_dtype_history_p02', '_fast_computations_history_p00', '_linalg_dtypes_history_p00', '_fast_computations_history_p02', '_linalg_dtypes_history_p02', '_flag_history_deterministic_probes_p02']
REACH_TWINS = ['_value_history_reach']
OVERRIDES_COVERED = {'deterministic_probes': ['_set_state']}
