#!/bin/bash
# run every quick (or thorough) check in turn; one summary line per property.  usage: tools/runall.sh [quick|thorough] [cap seconds] [ids...]
tier=${1:-quick}; cap=${2:-7200}; shift 2 2>/dev/null
ids="$*"; [ -z "$ids" ] && ids=$(seq -f "C%02g" 1 20)
cd "$(dirname "$0")/.."
for id in $ids; do
  s=$(date +%s)
  timeout $cap ./vcheck $id --tier $tier > /tmp/runall_${tier}_$id.log 2>&1
  rc=$?
  e=$(date +%s)
  echo "$id rc=$rc wall=$((e-s))s $(grep -c '^KNOWN-FINDING' /tmp/runall_${tier}_$id.log) known, $(grep -c '^VIOLATION' /tmp/runall_${tier}_$id.log) viol; $(grep '^\[C' /tmp/runall_${tier}_$id.log | cut -c1-170)"
done
