#!/bin/bash
# run every quick (or thorough) check in turn; one summary line per property
tier=${1:-quick}
cd "$(dirname "$0")/.."
for i in $(seq -w 1 20); do
  id=C$i
  s=$(date +%s)
  ./vcheck $id --tier $tier > /tmp/runall_$id.log 2>&1
  rc=$?
  e=$(date +%s)
  echo "$id rc=$rc wall=$((e-s))s $(grep -c '^KNOWN-FINDING' /tmp/runall_$id.log) known, $(grep -c '^VIOLATION' /tmp/runall_$id.log) viol; $(grep '^\[C' /tmp/runall_$id.log | cut -c1-160)"
done
