#!/bin/bash
# tools/seedcheck.sh <PROP> <a|b> : confirm a seeded defect produced by a sub-agent in /tmp/wt_<PROP>/SEED/<x>,
# copy it to /verif/seeded/<PROP><x>/ and run our checks against it (apply to /repo, run, undo).
# usage: tools/seedcheck.sh C03 a [check ids to run, default: the property itself]
set -u
P=$1; X=$2; shift 2
CHECKS="${*:-$P}"
WT=/tmp/wt_$P
SD=$WT/SEED/$X
OUT=/verif/seeded/$P$X
export OMP_NUM_THREADS=2 MKL_NUM_THREADS=2
[ -f $SD/patch.diff ] || { echo "no patch"; exit 2; }
mkdir -p $OUT
git -C $WT checkout -q -- linear_operator test 2>/dev/null
( cd $WT && PYTHONPATH=$WT /venv/bin/python $SD/demo.py >/dev/null 2>&1 ); clean_rc=$?
git -C $WT apply $SD/patch.diff || { echo "patch does not apply"; exit 2; }
( cd $WT && PYTHONPATH=$WT /venv/bin/python $SD/demo.py >/dev/null 2>&1 ); seeded_rc=$?
( cd $WT && PYTHONPATH=$WT /venv/bin/python -m pytest -q -p no:cacheprovider -x --timeout=900 -n 8 test > $OUT/pytest_tail.txt 2>&1 ); pytest_rc=$?
tail -n 2 $OUT/pytest_tail.txt > $OUT/pytest_tail.tmp; mv $OUT/pytest_tail.tmp $OUT/pytest_tail.txt
git -C $WT checkout -q -- linear_operator test
cp $SD/patch.diff $OUT/patch.diff; cp $SD/demo.py $OUT/demo.py; [ -f $SD/notes.md ] && cp $SD/notes.md $OUT/notes.md
echo "demo clean rc=$clean_rc seeded rc=$seeded_rc pytest rc=$pytest_rc"
if [ $clean_rc -ne 0 ] || [ $seeded_rc -ne 1 ] || [ $pytest_rc -ne 0 ]; then echo "SEED NOT CONFIRMED"; echo "{\"confirmed\": false, \"clean_rc\": $clean_rc, \"seeded_rc\": $seeded_rc, \"pytest_rc\": $pytest_rc}" > $OUT/meta.json; exit 1; fi
# run our checks against it: the patched scratch worktree is analysed in place (VERIF_REPO), /repo is never touched;
# evidence / replays of these experimental runs go to a private copy of /verif's output dirs
git -C $WT apply $OUT/patch.diff || { echo "patch does not apply"; exit 2; }
RES=""
for C in $CHECKS; do
  ( cd /verif && VERIF_REPO=$WT VERIF_OUT=$OUT/out ./vcheck $C --tier quick > $OUT/vcheck_$C.log 2>&1 ); rc=$?
  nv=$(grep -c "^VIOLATION" $OUT/vcheck_$C.log)
  RES="$RES \"$C\": {\"quick_rc\": $rc, \"violations\": $nv},"
  echo "check $C quick rc=$rc violations=$nv"
  grep -A1 "^VIOLATION" $OUT/vcheck_$C.log | grep cell | head -3
done
git -C $WT checkout -q -- linear_operator test
python3 - "$P" "$X" "$OUT" "${RES%,}" <<'PY'
import json,sys
P,X,OUT,RES=sys.argv[1:5]
notes=open(OUT+"/notes.md").read() if __import__("os").path.exists(OUT+"/notes.md") else ""
meta={"property":P,"seed":X,"confirmed":True,"what_i_ran":"tools/seedcheck.sh: demo.py on clean worktree (exit 0), demo.py with patch (exit 1), full pytest suite with patch (pass), then ./vcheck quick with VERIF_REPO pointing at the patched scratch worktree (/repo untouched), worktree restored",
      "needs_to_manifest":notes[:1500],"checks":json.loads("{"+RES+"}")}
json.dump(meta,open(OUT+"/meta.json","w"),indent=1)
PY
