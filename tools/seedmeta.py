#!/usr/bin/env python3
"""refresh seeded/<id>/meta.json `checks` from the vcheck logs of the last tools/seedrun.sh runs and print the detection table"""
import glob, json, os, re
root = os.path.join(os.path.dirname(os.path.abspath(__file__)), "..", "seeded")
rows = []
for d in sorted(glob.glob(os.path.join(root, "C*"))):
    s = os.path.basename(d)
    mp = os.path.join(d, "meta.json")
    meta = json.load(open(mp)) if os.path.exists(mp) else {"property": s[:3], "seed": s[3:]}
    checks = {}
    for lg in sorted(glob.glob(os.path.join(d, "vcheck_C*.log"))):
        c = re.search(r"vcheck_(C\d+)\.log", lg).group(1)
        txt = open(lg).read()
        nv = len(re.findall(r"^VIOLATION", txt, flags=re.M))
        cells = re.findall(r"^   cell=(\S+) label=(.*?) mode=(\S+)", txt, flags=re.M)
        summ = re.search(r"^\[C\d+\].*$", txt, flags=re.M)
        errs = len(re.findall(r"^HARNESS-ERROR", txt, flags=re.M))
        checks[c] = {"violations": nv, "detected": nv > 0, "harness_errors": errs,
                     "first_cells": [f"{a} :: {b} [{m}]" for a, b, m in cells[:3]], "summary": summ.group(0)[:200] if summ else None}
    meta["checks"] = checks
    meta["what_i_ran"] = ("tools/seedcheck.sh: demo.py on the clean scratch worktree (exit 0), demo.py with the patch (exit 1), full pytest suite with the "
                          "patch (4905 passed); tools/seedrun.sh: ./vcheck <check> --tier quick with VERIF_REPO pointing at the patched scratch worktree "
                          "(/repo untouched), worktree restored afterwards")
    json.dump(meta, open(mp, "w"), indent=1)
    det = [c for c, v in checks.items() if v["detected"]]
    first = next((v["first_cells"][0] for v in checks.values() if v["first_cells"]), "")
    rows.append((s, ", ".join(det) if det else "—", first))
print("| seed | detected by | first violating cell :: obligation |")
print("|---|---|---|")
for r in rows:
    print(f"| {r[0]} | {r[1]} | {r[2][:150]} |")
