#!/bin/bash
# re-run, for every confirmed seed, the check of its own property (plus extra checks given as SEED:CHECK pairs) and refresh meta.json
cd "$(dirname "$0")/.."
EXTRA="C04b:C08"
for d in seeded/C*; do
  s=$(basename $d); p=${s:0:3}
  checks="$p"
  for e in $EXTRA; do [ "${e%%:*}" = "$s" ] && checks="$checks ${e##*:}"; done
  tools/seedrun.sh $s $checks
done
python3 tools/seedmeta.py
