#!/usr/bin/env python3
"""Regenerate MANIFEST.json from the table below (kept in one place so it never goes stale)."""
import json, os
HERE = os.path.dirname(os.path.dirname(os.path.abspath(__file__)))
props = [json.loads(l) for l in open(os.path.join(HERE, "properties.jsonl"))]

COMMON_NOTE = ("floats are modelled as exact reals (rounding / NaN / Inf outside the claim); ATen op models are cross-checked against the real "
               "kernels at a witness point on every run; LAPACK/FFT/RNG are contract stubs (symtrace/lapack.py, fft.py); dense references "
               "are written independently in catalog/builders.py; shapes, nestings, programs and histories are bounded and enumerated, "
               "tensor values (and in-range index values) are universally quantified by the solver; KeOps excluded (pykeops missing)")
TECH = "symbolic execution of the real ATen op stream (TorchDispatchMode) + z3 / polynomial normal form; counterexamples replayed on the real code"

CLAIMED = {
 "C01": "For every catalogue operator (all classes incl. depth-2 nestings and a minimal user subclass), shapes n<=2 (quick) / n<=3 (thorough), batch shapes and rhs kinds: op@X, X@op, mT, to_dense, _matmul/_t_matmul are proved equal to the dense reference for ALL real leaf values and all in-range interpolation indices.",
 "C14": "clone / detach / to / type / float / double / cpu / evaluate_kernel / representation_tree rebuild of every catalogue operator: dense value and matmul proved equal to the reference for all leaf values; class, dtypes (incl. index tensors, torch default dtype), storage disjointness and requires_grad read off each explored path.",
 "C15": "Both torch-function registration tables are read at run time; for each registered function a recipe compares torch.f(op,...), the method and torch.f(dense,...) symbolically for all leaf values, both operand orders, tensor / scalar / operator operands; unregistered functions must raise NotImplementedError.",
}
CLAIMED["C02"] = "Expression programs of depth <= 3: all ordered pairs of 25 core classes (and of the Kronecker/block family) under +, -, @, elementwise * with dense; per-class scalar kinds (python float, negative, zero, 0-d tensor, batch of constants), add_diagonal/add_jitter, expand/repeat/squeeze/unsqueeze/permute/transpose, batch sum/prod, cat, add_low_rank, PSD elementwise products, and 7 fixed depth-3 programs: the result's dense value and shape are proved equal to the same expression on dense tensors for all leaf values; only explicit not-supported errors are accepted."
CLAIMED["C03"] = "For every catalogue operator and ~120 index tuples per shape (ints of both signs, all slice kinds, Ellipsis, 0-d/1-d/2-d LongTensors, lists, mixed): op[index] is proved equal to dense[index] in value and shape, with every LongTensor ENTRY a symbolic integer (once over [0,n), once over [-n,n)), so one verdict covers all index values; diagonal() vs the dense diagonal; only explicit not-supported errors are accepted as deviations."
CLAIMED["C20"] = "The real utility kernels (Toeplitz build / getitem / FFT products / derivative quadratic form, left_interp / left_t_interp with symbolic indices, make_sparse (zero values forked), bdsmm with broadcasting, dsmm gradient, sparse_eye / getitem / repeat / to_sparse, apply_permutation with symbolic permutation entries, inverse_permutation, stable_qr, stable_pinverse tall/square/fat) are proved equal to their dense definitions for all values at n <= 3 (4 thorough)."
CLAIMED["C04"] = "For 13 PD classes at n=2 and 8 Kronecker/block classes at size 4, under 6 settings cells (default, fast_solves off, CG with max_cholesky_size(0) with and without the pivoted-Cholesky preconditioner, memory_efficient): A X = B is proved for ALL positive-definite parameter values and right-hand sides for solve / torch.linalg.solve / linear_operator.solve (vector, matrix, broadcast rhs, left factor), triangular solves incl. _cholesky_solve orientation, Chol.inverse, permutation solves. The CG cells run the real jit-scripted linear_cg for n iterations (exact termination in R)."
CLAIMED["C06"] = "cholesky (both orientations, both call orders), root_decomposition / root_inv_decomposition (default, cholesky, symeig, lanczos at full Krylov dimension), eigh / eigvalsh / _symeig / diagonalization(symeig) and their torch.linalg forms: the defining products (L L^T, R^T R, R R^T = A, A R R^T = I, Q^T Q = I, Q diag(w) Q^T = A) are proved for all parameter values of 22 PD classes (n=2; Kronecker/block 4x4) and of eigen-parametrised operators A = Q diag(w) Q^T (rotation atom, ascending spectrum >= 1/8)."
CLAIMED["C05"] = "Deterministic paths: logdet / torch.logdet, inv_quad (vector, matrix, reduce on/off) and inv_quad_logdet (all flag combinations, rhs None) are proved equal to log det(A) (cofactor determinant under one log atom, log-linear rule) and to sum(R * A^{-1}R) (cofactor inverse) for all parameter values of 25 PD classes incl. eigen-parametrised Kronecker(+diagonal) operators whose eigen-structured branches are forced by max_cholesky_size. The stochastic Lanczos-quadrature clause is not covered (see DESIGN §7)."
CLAIMED["C13"] = "Aliasing monitor of the symbolic executor: every leaf storage is caller-owned; every in-place / out= / copy_ / index_put_ / RNG write the library issues (thousands per run) is checked for landing in caller-owned storage with a changed symbolic value. 27 operator classes x their public operations and 13 utility/solver families (linear_cg, minres, lanczos, psd_safe_cholesky, QR, Toeplitz, sparse, interpolation, pivoted Cholesky, Kronecker solve, BatchRepeat, cat_rows, detach_/requires_grad_) x 4 argument layouts (contiguous, stride-0 expanded, transposed view, slice of a larger owned buffer), on every solver-enumerated path."
CLAIMED["C16"] = "The real psd_safe_cholesky on EVERY symmetric 1x1 / 2x2 matrix (free entries), unbatched and in batches of 2 with mixed members, explicit jitter / settings, upper both ways, max_tries 1..3: the Cholesky stub forks on the sign of each pivot, so every outcome pattern (which member fails at which try) is a path; per path z3 proves triangularity/orientation, F F^T - A = delta I per member, delta in {0, jitter*10^i}, exactness for PD members, minimality of i against the leading-minor PD criterion, NotPSDError only when a member is still not PD at the last level; warning iff retry; input not written."
CLAIMED["C17"] = "CrossHair executes the REAL settings base classes (and the two composites, and the one concrete class that overrides _set_state) symbolically under histories of 6 symbolic events (construct / enter / exit / exit-by-exception / re-enter) with symbolic values over two setting classes; post: the real classes report the value of a reference stack model after every event. 19 conditions, each 'Confirmed over all paths'; all concrete setting classes are checked by reflection to inherit the proven methods."
NA = {}
checks = []
for p in props:
    pid = p["id"]
    if pid in CLAIMED:
        checks.append({"property_id": pid, "quick_cmd": f"./vcheck {pid} --tier quick", "thorough_cmd": f"./vcheck {pid} --tier thorough",
                       "evidence_file": f"/verif/evidence/{pid}.json", "replay_cmd_template": "./vcheck replay {path}", "engine": "symtrace" if pid != "C17" else "crosshair",
                       "level_claimed": {"category": "model_checking", "text": CLAIMED[pid] + " Bounded: nothing is claimed beyond the stated sizes.",
                                         "design_ref": f"DESIGN.md §6 {pid}"},
                       "level_note": COMMON_NOTE if pid != "C17" else "CrossHair path exploration is complete only within the stated history length (6 events, 2 classes); threads are outside the property; a condition that is 'Not confirmed' within its time budget is reported inconclusive, never as success",
                       "technique": TECH if pid != "C17" else "CrossHair symbolic execution (z3) of the real Python classes against a reference model; counterexamples re-executed concretely",
                       })
m = {"version": 1, "setup_cmd": "./vcheck setup",
     "hooks": {"guard": "LINEAR_OPERATOR_VERIF", "enable": "none needed: the dispatch mode observes the unmodified library (no source hooks)",
               "baseline_off_cmd": "cd /repo && /venv/bin/python -m pytest -ra -q -p no:cacheprovider --timeout=900 --continue-on-collection-errors",
               "source_commits": [], "add_only": True},
     "engines": [{"name": "crosshair", "path": "ch/", "serves_properties": ["C17"], "kind_free_text": "crosshair-tool 0.0.110 on the real pure-Python classes, one process per condition"}, {"name": "symtrace", "path": "symtrace/", "serves_properties": sorted(CLAIMED),
                  "kind_free_text": "TorchDispatchMode symbolic shadow execution of the real library on hash-consed term DAGs; z3 (RAW) + polynomial normaliser modulo atom relations (NORM) + seeded refutation; concolic path exploration; replay on the real code"}],
     "checks": checks,
     "not_applicable": [{"property_id": p["id"], "reason": NA.get(p["id"], "check not built yet in this round (planned, see DESIGN.md §6)")} for p in props if p["id"] not in CLAIMED],
     "notes": "see DESIGN.md; known_findings.json lists genuine defects recorded (open) or repaired (fixed)"}
json.dump(m, open(os.path.join(HERE, "MANIFEST.json"), "w"), indent=1)
print("claimed", sorted(CLAIMED))
