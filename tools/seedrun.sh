#!/bin/bash
# tools/seedrun.sh <seed dir name, e.g. C19a> <check ids...> : run checks against an already confirmed seed (scratch worktree, /repo untouched)
S=$1; shift
P=${S:0:3}; WT=/tmp/wt_$P; OUT=/verif/seeded/$S
# the scratch worktree is created on demand at /repo's HEAD and can be removed afterwards with
#   git -C /repo worktree remove --force /tmp/wt_<PROP>
[ -d $WT ] || git -C /repo worktree add -q --detach $WT HEAD || exit 2
git -C $WT checkout -q -- linear_operator test; git -C $WT apply $OUT/patch.diff || exit 2
for C in "$@"; do
  ( cd /verif && VERIF_REPO=$WT VERIF_OUT=$OUT/out ./vcheck $C --tier ${TIER:-quick} ${ONLY:+--only "$ONLY"} > $OUT/vcheck_$C.log 2>&1 ); rc=$?
  echo "$S check $C rc=$rc violations=$(grep -c '^VIOLATION' $OUT/vcheck_$C.log) $(grep -A1 '^VIOLATION' $OUT/vcheck_$C.log | grep cell | head -2 | tr '\n' ' ' | cut -c1-200)"
done
git -C $WT checkout -q -- linear_operator test
