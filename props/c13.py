"""C13 — no operation mutates caller-owned tensors or an existing operator's matrix."""
from __future__ import annotations

import torch

import linear_operator
from catalog.builders import BUILDERS, toeplitz_ref
from linear_operator import settings
from linear_operator.utils import interpolation, permutation, sparse, toeplitz
from linear_operator.utils.cholesky import psd_safe_cholesky
from linear_operator.utils.lanczos import lanczos_tridiag
from linear_operator.utils.linear_cg import linear_cg
from linear_operator.utils.minres import minres
from linear_operator.utils.pinverse import stable_pinverse
from linear_operator.utils.qr import stable_qr
from props.common import SIGNALS

PID = "C13"
CONCLUSIVE_FLOOR = {"quick": 30, "thorough": 60}
COUNT_WRITE_PATHS = True
LAYOUTS = ["contig", "expanded", "transposed", "slice"]
OPS_BUILDERS = ["Dense", "DensePD", "Diag", "ConstantDiag", "Toeplitz", "TriangularLower", "CholLower", "Root", "Kronecker", "KroneckerPD",
                "KroneckerAddedConstDiag", "AddedDiag", "LowRankRootAddedDiag", "Sum", "Matmul", "Mul", "ConstantMul", "BlockDiag",
                "BlockInterleaved", "SumBatch", "BatchRepeat", "CatRows", "Interpolated", "Masked", "Kernel", "Identity", "Zero"]
UTILS = ["alias_inner", "one_by_one", "linear_cg", "minres", "lanczos", "psd_safe_cholesky", "stable_qr", "toeplitz", "sparse", "interp", "pivoted_cholesky", "kron_solve",
         "cat_rows", "inplace_methods", "batch_repeat", "function_backward"]


def cells(tier, seed):
    out = []
    for name in OPS_BUILDERS if tier != "quick" else OPS_BUILDERS:
        for lay in LAYOUTS:
            for batch in ((),) if tier == "quick" else ((), (2,)):
                out.append({"id": f"ops/{name}/b{'x'.join(map(str, batch)) or '-'}/{lay}", "params": {"group": "ops", "builder": name, "layout": lay, "n": 2, "batch": list(batch)}})
    for u in UTILS:
        for lay in LAYOUTS:
            out.append({"id": f"util/{u}/{lay}", "params": {"group": u, "layout": lay, "n": 2, "batch": []}})
    return out


def explore_opts(params, tier):
    return {"timeout_s": 1.0, "max_paths": 6, "path_budget_s": 60.0,
            "engine_opts": {"cut_sites": ("make_sparse_from_indices_and_values", "linear_cg", "minres", "lanczos_tridiag"),
                            "item_whitelist": ("linear_cg", "minres")}}


def describe(tier):
    return {
        "bounds": {"n": 2, "layouts": LAYOUTS, "operations": "matmul / rmatmul / transpose / to_dense / diagonal / getitem / add_jitter / + / * / solve / logdet / inv_quad / "
                   "cholesky / root_decomposition per class; utilities " + ", ".join(UTILS)},
        "outside": ["writes performed inside stubbed LAPACK kernels", "n > 2"],
        "assumptions": ["every leaf storage is tagged caller-owned; any symbolic write (in-place op, out=, copy_, index_put_, scatter_, RNG fill) "
                        "whose destination storage is caller-owned and whose value differs from the old cell is an event; the event set is "
                        "value-independent on a path and paths are solver-enumerated"],
    }


def layout(ctx, name, shape, lay, **kw):
    """a caller-owned tensor of the given logical shape in one of four memory layouts"""
    shape = tuple(shape)
    if lay == "contig" or len(shape) == 0:
        return ctx.leaf(name, shape, **kw)
    if lay == "expanded":
        base = ctx.leaf(name, shape[:-1] + (1,), **kw)
        return base.expand(*shape)
    if lay == "transposed":
        if len(shape) < 2:
            base = ctx.leaf(name, (shape[0], 2), **kw)
            return base[:, 0]
        base = ctx.leaf(name, shape[:-2] + (shape[-1], shape[-2]), **kw)
        return base.mT
    if lay == "slice":
        big = tuple(s + 1 for s in shape)
        base = ctx.leaf(name, big, **kw)
        return base[tuple(slice(1, None) for _ in shape)]
    raise ValueError(lay)


_CTX = [None]


def quiet(f):
    """run an operation; what it returns or whether it is supported is not this property's business"""
    try:
        return f()
    except SIGNALS:
        raise
    except Exception as e:  # noqa: BLE001
        if _CTX[0] is not None and getattr(_CTX[0], "symbolic", False):
            _CTX[0].eng.resurface(e)  # an engine signal wrapped by the TorchScript interpreter
        return None


def harness(ctx):
    _CTX[0] = ctx
    p = ctx.params
    g, lay, n = p["group"], p["layout"], p["n"]
    batch = tuple(p["batch"])
    if g == "ops":
        b = BUILDERS[p["builder"]]
        op, ref = b(ctx, n, batch)
        m_, k_ = ref.shape[-2:]
        X = layout(ctx, "argX", tuple(ref.shape[:-2]) + (k_, 2), lay)
        Y = layout(ctx, "argY", (2, m_), lay)
        v = layout(ctx, "argv", (k_,), lay)
        quiet(lambda: op @ X)
        quiet(lambda: op @ v)
        quiet(lambda: Y @ op)
        quiet(lambda: op.mT @ layout(ctx, "argXt", tuple(ref.shape[:-2]) + (m_, 1), lay))
        quiet(lambda: op.to_dense())
        quiet(lambda: op.diagonal())
        quiet(lambda: op[..., 0, :])
        quiet(lambda: op[..., :, -1])
        quiet(lambda: (op + op).to_dense())
        quiet(lambda: (op * 2.0).to_dense())
        quiet(lambda: op.sum(-1))
        ctx.assert_no_mutation("basic")
        if m_ == k_:
            quiet(lambda: op.add_jitter(0.5).to_dense())
            quiet(lambda: op.add_diagonal(layout(ctx, "argd", (k_,), lay)).to_dense())
            ctx.assert_no_mutation("diag")
        if b.pd:
            B2 = layout(ctx, "argB", tuple(ref.shape[:-2]) + (k_, 1), lay)
            quiet(lambda: op.solve(B2))
            quiet(lambda: op.solve(B2, layout(ctx, "argL", (1, k_), lay)))
            quiet(lambda: op.logdet())
            quiet(lambda: op.inv_quad(B2))
            quiet(lambda: op.inv_quad_logdet(B2, logdet=True))
            quiet(lambda: op.cholesky())
            quiet(lambda: op.root_decomposition().to_dense())
            quiet(lambda: op.root_inv_decomposition().to_dense())
            ctx.assert_no_mutation("pd")
            with settings.max_cholesky_size(0), settings.max_cg_iterations(k_), settings.cg_tolerance(1e-30), settings.max_lanczos_quadrature_iterations(k_):
                if k_ <= 2:
                    quiet(lambda: op.solve(layout(ctx, "argBcg", tuple(ref.shape[:-2]) + (k_, 1), lay)))
            ctx.assert_no_mutation("pd-cg")
        ctx.eq(op.to_dense() if False else ref, ref, "noop")
        return

    if g == "alias_inner":
        # inner operators whose _matmul hands back the right-hand side itself: an outer in-place update would hit the caller's tensor
        import linear_operator.operators as O
        d = ctx.leaf("d", (n,), positive=True)
        I = O.IdentityLinearOperator(n, dtype=torch.float64)
        ops = {
            "AddedDiag(Identity.root, Diag)": lambda: O.AddedDiagLinearOperator(I.root_decomposition(), O.DiagLinearOperator(d)),
            "Identity.root + Diag": lambda: I.root_decomposition() + O.DiagLinearOperator(d),
            "Matmul(I, I)": lambda: O.MatmulLinearOperator(I, I),
            "Kronecker(I_n, I_1)": lambda: O.KroneckerProductLinearOperator(I, O.IdentityLinearOperator(1, dtype=torch.float64)),
            "Sum(I, Diag)": lambda: O.SumLinearOperator(I, O.DiagLinearOperator(d)),
            "ConstantMul(I)": lambda: I * 2.0,
            "Identity.add_jitter": lambda: I.add_jitter(0.5),
        }
        X = layout(ctx, "argX", (n, 2), lay)
        v = layout(ctx, "argv", (n,), lay)
        for name, mk in ops.items():
            op = quiet(mk)
            if op is None:
                continue
            quiet(lambda: op @ X)
            quiet(lambda: op._matmul(X))
            quiet(lambda: op @ v)
            quiet(lambda: op.mT @ X)
            quiet(lambda: X.mT @ op)
            quiet(lambda: op.solve(X))
            ctx.assert_no_mutation(name)
        ctx.eq(X, X, "noop")
        return
    if g == "one_by_one":
        import linear_operator.operators as O
        big = ctx.leaf("big", (3, 3), positive=True)
        k = layout(ctx, "k11", (1, 1), lay, positive=True)
        kb = ctx.leaf("k11b", (2, 1, 1), positive=True)
        rhs = ctx.leaf("rhs", (1, 1))
        for name, mk in {"Dense 1x1": lambda: O.DenseLinearOperator(k), "batch of 1x1": lambda: O.DenseLinearOperator(kb),
                         "1x1 slice of a 3x3 dense operator": lambda: O.DenseLinearOperator(big)[1:2, 1:2], "Diag 1x1": lambda: O.DiagLinearOperator(k[0]),
                         "Toeplitz 1x1": lambda: O.ToeplitzLinearOperator(k[0])}.items():
            op = quiet(mk)
            if op is None:
                continue
            quiet(lambda: op.cholesky())
            quiet(lambda: op.solve(rhs))
            quiet(lambda: op.logdet())
            quiet(lambda: op.inv_quad_logdet(rhs, logdet=True))
            quiet(lambda: op.root_decomposition().to_dense())
            quiet(lambda: op.root_inv_decomposition().to_dense())
            quiet(lambda: op.zero_mean_mvn_samples(1))
            quiet(lambda: op.diagonalization())
            ctx.assert_no_mutation(name)
        ctx.eq(rhs, rhs, "noop")
        return
    if g == "linear_cg":
        L = ctx.leaf("L", (n, n), tril=True, posdiag=True)
        A = L @ L.mT
        rhs = layout(ctx, "rhs", (n, 2), lay)
        x0 = layout(ctx, "x0", (n, 2), lay)
        quiet(lambda: linear_cg(lambda z: A @ z, rhs, max_iter=n, max_tridiag_iter=n, tolerance=1e-30))
        ctx.assert_no_mutation("linear_cg(default guess)")
        quiet(lambda: linear_cg(lambda z: A @ z, rhs, max_iter=n, max_tridiag_iter=n, tolerance=1e-30, initial_guess=x0))
        ctx.assert_no_mutation("linear_cg(initial_guess)")
        quiet(lambda: linear_cg(lambda z: A @ z, rhs, max_iter=n, max_tridiag_iter=n, n_tridiag=1, tolerance=1e-30))
        ctx.assert_no_mutation("linear_cg(n_tridiag)")
        zero = torch.zeros(n, 1, dtype=torch.float64)
        quiet(lambda: linear_cg(lambda z: A @ z, rhs * 0.0, max_iter=n, max_tridiag_iter=n))
        ctx.assert_no_mutation("linear_cg(zero rhs)")
        quiet(lambda: linear_cg(A, rhs, max_iter=n, max_tridiag_iter=n, tolerance=1e-30, preconditioner=lambda z: z * 0.5))
        ctx.assert_no_mutation("linear_cg(precond)")
        return
    if g == "minres":
        L = ctx.leaf("L", (n, n), tril=True, posdiag=True)
        A = L @ L.mT
        rhs = layout(ctx, "rhs", (n, 1), lay)
        shifts = layout(ctx, "shifts", (2,), lay if lay != "transposed" else "contig", positive=True)
        quiet(lambda: minres(lambda z: A @ z, rhs, max_iter=0))
        ctx.assert_no_mutation("minres")
        quiet(lambda: minres(lambda z: A @ z, rhs, shifts=shifts, max_iter=0))
        ctx.assert_no_mutation("minres(shifts)")
        return
    if g == "lanczos":
        L = ctx.leaf("L", (n, n), tril=True, posdiag=True)
        A = L @ L.mT
        init = layout(ctx, "init", (n, 1), lay)
        quiet(lambda: lanczos_tridiag(lambda z: A @ z, n, dtype=torch.float64, device=torch.device("cpu"), matrix_shape=torch.Size((n, n)), init_vecs=init))
        ctx.assert_no_mutation("lanczos_tridiag(init_vecs)")
        return
    if g == "psd_safe_cholesky":
        A = layout(ctx, "A", (n, n), lay)
        S = A @ A.mT
        own = layout(ctx, "Asym", (n, n), lay if lay != "transposed" else "contig")
        quiet(lambda: psd_safe_cholesky(own + own.mT))
        quiet(lambda: psd_safe_cholesky(own))
        ctx.assert_no_mutation("psd_safe_cholesky")
        quiet(lambda: psd_safe_cholesky(own, upper=True))
        quiet(lambda: psd_safe_cholesky(own, jitter=1e-3, max_tries=2))
        ctx.assert_no_mutation("psd_safe_cholesky(upper / jitter)")
        return
    if g == "stable_qr":
        A = layout(ctx, "A", (n + 1, n), lay)
        quiet(lambda: stable_qr(A))
        quiet(lambda: stable_pinverse(A))
        quiet(lambda: stable_pinverse(A.mT))
        ctx.assert_no_mutation("stable_qr / stable_pinverse")
        return
    if g == "toeplitz":
        c = layout(ctx, "c", (n + 1,), lay)
        X = layout(ctx, "X", (n + 1, 2), lay)
        quiet(lambda: toeplitz.sym_toeplitz(c))
        quiet(lambda: toeplitz.toeplitz(c, c))
        quiet(lambda: toeplitz.sym_toeplitz_matmul(c, X))
        quiet(lambda: toeplitz.toeplitz_matmul(c, c, X))
        quiet(lambda: toeplitz.sym_toeplitz_derivative_quadratic_form(X, X))
        ctx.assert_no_mutation("toeplitz utils")
        op = linear_operator.operators.ToeplitzLinearOperator(c)
        quiet(lambda: op @ X)
        quiet(lambda: op._bilinear_derivative(X, X))
        ctx.assert_no_mutation("ToeplitzLinearOperator")
        return
    if g in ("sparse", "interp"):
        m = n + 1
        idx = layout(ctx, "idx", (n, 2), lay if lay != "expanded" else "contig", kind="int", lo=0, hi=m)
        val = layout(ctx, "val", (n, 2), lay)
        R = layout(ctx, "R", (m, 2), lay)
        Rt = layout(ctx, "Rt", (n, 2), lay)
        if g == "interp":
            quiet(lambda: interpolation.left_interp(idx, val, R))
            quiet(lambda: interpolation.left_t_interp(idx, val, Rt, m))
            ctx.assert_no_mutation("left_interp / left_t_interp")
        else:
            S = quiet(lambda: sparse.make_sparse_from_indices_and_values(idx, val, m))
            if S is not None:
                quiet(lambda: sparse.bdsmm(S, Rt))
                quiet(lambda: sparse.sparse_getitem(S, 0))
                quiet(lambda: sparse.sparse_repeat(S, 2, 1))
            quiet(lambda: sparse.to_sparse(R))
            ctx.assert_no_mutation("sparse utils")
        return
    if g == "pivoted_cholesky":
        L = ctx.leaf("L", (n, n), tril=True, posdiag=True)
        A = layout(ctx, "A", (n, n), lay if lay != "transposed" else "contig")
        op = linear_operator.operators.DenseLinearOperator(A)
        quiet(lambda: op.pivoted_cholesky(rank=n))
        quiet(lambda: op.pivoted_cholesky(rank=1, return_pivots=True))
        ctx.assert_no_mutation("pivoted_cholesky")
        return
    if g == "kron_solve":
        op, ref = BUILDERS["KroneckerPD"](ctx, n, ())
        rhs = layout(ctx, "rhs", (2 * n, 1), lay)
        quiet(lambda: op._solve(rhs))
        quiet(lambda: op.solve(rhs))
        quiet(lambda: op._matmul(rhs))
        quiet(lambda: op._t_matmul(rhs))
        ctx.assert_no_mutation("KroneckerProduct._solve")
        return
    if g == "batch_repeat":
        op, ref = BUILDERS["BatchRepeatPD"](ctx, n, ())
        rhs = layout(ctx, "rhs", (2, n, 1), lay)
        quiet(lambda: op @ rhs)
        quiet(lambda: op.solve(rhs))
        quiet(lambda: op.inv_quad_logdet(rhs, logdet=True))
        ctx.assert_no_mutation("BatchRepeat")
        return
    if g == "cat_rows":
        op, ref = BUILDERS["DensePD"](ctx, n, ())
        cross = layout(ctx, "cross", (1, n), lay)
        new = layout(ctx, "newblk", (1, 1), "contig", positive=True)
        quiet(lambda: op.cat_rows(cross, new + 10.0))
        quiet(lambda: op.add_low_rank(layout(ctx, "lowrank", (n, 1), lay)))
        ctx.assert_no_mutation("cat_rows / add_low_rank")
        return
    if g == "function_backward":
        # backward of the library's autograd Functions, driven directly with caller-owned grad_outputs (the tensors a caller hands to
        # torch.autograd.grad(..., grad_outputs=...)): they must come back unchanged
        import types

        from linear_operator.functions._root_decomposition import RootDecomposition
        A = ctx.leaf("A", (n, n))
        q = ctx.leaf("q_mat", (n, n))
        ev = ctx.leaf("root_evals", (n,), positive=True)
        for want_root, want_inv in ((True, True), (True, False), (False, True)):
            inv = q / ev.unsqueeze(-2)
            fctx = types.SimpleNamespace(needs_input_grad=(False,) * 9 + (True,), saved_tensors=(A, q, ev, inv if want_inv else torch.empty(0, dtype=torch.float64)),
                                         inverse=want_inv, root=want_root, _linear_op=linear_operator.operators.DenseLinearOperator(A))
            tag = f"root={want_root},inverse={want_inv}"
            g_root = layout(ctx, f"grad_root[{tag}]", (n, n), lay) if want_root else torch.empty(0, dtype=torch.float64)
            g_inv = layout(ctx, f"grad_inverse[{tag}]", (n, n), lay) if want_inv else torch.empty(0, dtype=torch.float64)
            quiet(lambda: RootDecomposition.backward(fctx, g_root, g_inv))
            ctx.assert_no_mutation(f"RootDecomposition.backward({tag})")
        return
    if g == "inplace_methods":
        for name in ("Dense", "Kronecker", "Interpolated", "AddedDiag"):
            op, ref = BUILDERS[name](ctx, n, (), p=name + "_")
            before = ref.clone()
            quiet(lambda: op.requires_grad_(True))
            quiet(lambda: op.requires_grad_(False))
            quiet(lambda: op.detach_())
            ctx.assert_no_mutation(f"{name}: detach_ / requires_grad_")
            ctx.eq(op.to_dense(), before, f"{name}: value unchanged by detach_ / requires_grad_")
        return
    raise ValueError(g)
