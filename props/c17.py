"""C17 — settings contexts are properly scoped and never leak (Engine B: CrossHair on the real classes)."""
from __future__ import annotations

import inspect
import os

PID = "C17"
CONCLUSIVE_FLOOR = {"quick": 10, "thorough": 10}
HERE = os.path.dirname(os.path.dirname(os.path.abspath(__file__)))


def cells(tier, seed):
    return []


def harness(ctx):
    raise RuntimeError("C17 has no symtrace cells")


def describe(tier):
    return {
        "bounds": {"events_per_history": 6, "event_kinds": ["construct A", "construct B", "enter", "exit", "exit by exception", "re-enter active object"],
                   "setting_classes_per_history": 2, "values": "symbolic ints / bools / optional ints (None = unset)"},
        "outside": ["threads (settings are process-global)", "histories longer than 6 events",
                    "non-LIFO exits (a `with` statement cannot produce them)"],
        "assumptions": ["concrete setting classes inherit __init__/__enter__/__exit__/_set_* from the three base classes: checked "
                        "structurally by reflection on every run; a class that overrides one of them is reported as not covered"],
    }


def structural(violations, inconclusive):
    """every concrete setting class must take its context behaviour from the proven base classes"""
    import linear_operator.beta_features as BF
    import linear_operator.settings as S

    import ch.c17_settings as H

    covered = H.OVERRIDES_COVERED  # overrides that have a dedicated CrossHair condition
    bases = (S._feature_flag, S._value_context, S._dtype_value_context)
    n = 0
    names = []
    for mod in (S, BF):
        for nm, cls in vars(mod).items():
            if not inspect.isclass(cls) or cls in bases or not issubclass(cls, bases):
                continue
            n += 1
            names.append(nm)
            base = next(b for b in bases if issubclass(cls, b))
            for meth in ("__init__", "__enter__", "__exit__", "_set_state", "_set_value", "value", "on", "off", "is_default"):
                if meth in vars(cls) and meth not in covered.get(nm, []):
                    inconclusive.append(f"{mod.__name__}.{nm} overrides {meth}: not covered by the base-class proof")
            # a concrete smoke run per class (not solver-decided; reported as auxiliary)
    return n, names


def aux(tier, seed):
    from symtrace.chrun import replay_call, run_all
    import importlib

    path = os.path.join(HERE, "ch", "c17_settings.py")
    mod = importlib.import_module("ch.c17_settings")
    tmo = 90 if tier == "quick" else 400
    res, twins = run_all(path, "ch.c17_settings", mod.HARNESSES, mod.REACH_TWINS, tmo)
    out = {"obligations": len(res), "proved": 0, "unknown": 0, "queries": len(res) + len(twins), "solver_s": 0.0, "inconclusive": [],
           "errors": [], "violations": [], "samples": [], "functions": [
               "linear_operator.settings._value_context.__init__/__enter__/__exit__", "linear_operator.settings._feature_flag.__init__/__enter__/__exit__/on/off/is_default",
               "linear_operator.settings._dtype_value_context.__init__/__enter__/__exit__/value/_set_value",
               "linear_operator.settings.fast_computations.__init__/__enter__/__exit__", "linear_operator.settings.linalg_dtypes.__init__/__enter__/__exit__"]}
    for r in res:
        out["solver_s"] += r["seconds"]
        if r["verdict"] == "confirmed":
            out["proved"] += 1
        elif r["verdict"] == "refuted":
            ok, info = replay_call("ch.c17_settings", r["detail"])
            if ok:
                out["violations"].append({"cell": "crosshair/" + r["fn"].rsplit("_p", 1)[0], "label": r["fn"], "params": {"call": r["detail"]},
                                          "detail": info, "mode": "CROSSHAIR", "model": None, "replay": info})
            else:
                out["errors"].append(f"CrossHair counterexample for {r['fn']} did not reproduce concretely: {info}")
        else:
            out["unknown"] += 1
            out["inconclusive"].append(f"crosshair {r['fn']}: {r['verdict']} {r['detail'][:160]} ({r['seconds']}s)")
        if len(out["samples"]) < 3:
            out["samples"].append({"condition": r["fn"], "verdict": r["verdict"], "seconds": r["seconds"],
                                   "meaning": "post: real classes report the reference stack model's value after every event of a symbolic 6-event history"})
    for t in twins:
        if t["verdict"] != "refuted":
            out["errors"].append(f"reachability twin {t['fn']} was not refuted ({t['verdict']}): harness may be vacuous")
    n, names = structural(out["violations"], out["inconclusive"])
    out["coverage_extra"] = {"crosshair_conditions": [dict(r) for r in res], "reachability_twins": twins,
                             "concrete_setting_classes_structurally_covered": n, "setting_classes": names,
                             "technique": "CrossHair (symbolic execution of the real Python classes with z3, per path)"}
    return out
