"""C14 — copies, conversions and rebuilds denote the same matrix with the right dtype."""
from __future__ import annotations

import torch

from catalog.builders import BUILDERS
from linear_operator.operators import LinearOperator
from props.common import attempt

PID = "C14"
CONCLUSIVE_FLOOR = {"quick": 100, "thorough": 300}

GROUPS = ["clone", "detach", "rebuild", "to32", "default_dtype", "requires_grad"]


def cells(tier, seed):
    out = []
    shapes = [(2, ()), (2, (2,))] if tier == "quick" else [(1, ()), (2, ()), (3, ()), (2, (2,)), (2, (1,)), (2, (2, 1))]
    for name, b in BUILDERS.items():
        for n, batch in shapes:
            if name in ("BlockDiagDim", "TransposePermutation") and (batch != () or n > 2):
                continue
            if "nested" in b.tags and (n > 2 or len(batch) > 1):
                continue
            if "fixedbatch" in b.tags and (n != 2 or batch):
                continue
            if "eig" in b.tags and (n != 2 or batch):
                continue
            for g in GROUPS:
                out.append({"id": f"{name}/n{n}/b{'x'.join(map(str, batch)) or '-'}/{g}",
                            "params": {"builder": name, "n": n, "batch": list(batch), "group": g}})
    return out


def explore_opts(params, tier):
    return {"timeout_s": 1.0 if tier == "quick" else 30.0, "max_paths": 8,
            "engine_opts": {"cut_sites": ("make_sparse_from_indices_and_values",)}}


def describe(tier):
    return {
        "bounds": {"matrix_size_n": [2] if tier == "quick" else [1, 2, 3], "groups": GROUPS, "builders": sorted(BUILDERS),
                   "dtype_pairs": "float64 -> float32 -> float64; torch default dtype float32 and float64"},
        "outside": ["KeOpsLinearOperator", "devices other than cpu", "rounding of the float32 conversion (values are reals)"],
        "assumptions": ["value clauses are solver-decided (to_dense and matmul of the copy == dense reference for all leaf values); "
                        "metadata clauses (class, flags via value, dtypes, storage disjointness, requires_grad) are read off the "
                        "concrete shadow of each explored path - they are value-independent on a path"],
    }


def _tensors(op):
    try:
        return [t for t in op.representation() if torch.is_tensor(t)]
    except RuntimeError:
        return []  # reported once, by the "rebuild" group


def _value_checks(ctx, tag, c, ref, X):
    attempt(ctx, f"{tag}.to_dense", lambda: ctx.eq(c.to_dense(), ref, f"{tag}.to_dense"))
    attempt(ctx, f"{tag}.matmul", lambda: ctx.eq(c @ X, ref @ X, f"{tag}.matmul"))
    attempt(ctx, f"{tag}.t_matmul", lambda: ctx.eq(c.mT @ ctx_leaf_like(ctx, ref), ref.mT @ ctx_leaf_like(ctx, ref), f"{tag}.t_matmul"))


_LEAF_CACHE = {}


def ctx_leaf_like(ctx, ref):
    key = (id(ctx), "Y")
    if key not in _LEAF_CACHE:
        _LEAF_CACHE.clear()
        _LEAF_CACHE[key] = ctx.leaf("argYt", (ref.shape[-2], 1))
    return _LEAF_CACHE[key]


def _same_structure(ctx, tag, op, c):
    if type(c) is not type(op):
        ctx.fail(f"{tag}:class", f"{type(c).__name__} vs {type(op).__name__}")
    if tuple(c.shape) != tuple(op.shape):
        ctx.fail(f"{tag}:shape", f"{tuple(c.shape)} vs {tuple(op.shape)}")
    try:
        a, b = op.representation(), c.representation()
    except RuntimeError:
        return
    if len(a) != len(b):
        ctx.fail(f"{tag}:representation-length", f"{len(b)} vs {len(a)}")
        return
    for i, (x, y) in enumerate(zip(a, b)):
        if torch.is_tensor(x) and torch.is_tensor(y):
            if not x.dtype.is_floating_point and x.dtype != y.dtype:
                ctx.fail(f"{tag}:index-dtype", f"arg {i}: {x.dtype} became {y.dtype}")


def harness(ctx):
    p = ctx.params
    b = BUILDERS[p["builder"]]
    batch = tuple(p["batch"])
    g = p["group"]
    _LEAF_CACHE.clear()
    old_default = torch.get_default_dtype()
    try:
        _run(ctx, b, p["n"], batch, g)
    finally:
        torch.set_default_dtype(old_default)


def _run(ctx, b, n, batch, g):
    op, ref = b(ctx, n, batch)
    X = ctx.leaf("argX", (ref.shape[-1], 2))
    if g == "clone":
        c = op.clone()
        _same_structure(ctx, "clone", op, c)
        _value_checks(ctx, "clone", c, ref, X)
        own = {t.untyped_storage().data_ptr() for t in _tensors(op) if t.numel()}
        for t in _tensors(c):
            if t.numel() and t.untyped_storage().data_ptr() in own:
                ctx.fail("clone:shares-storage", f"tensor of shape {tuple(t.shape)} shares storage with the original")
        return
    if g == "detach":
        for t in _tensors(op):
            if t.dtype.is_floating_point and t.is_leaf:
                t.requires_grad_(True)
        c = op.detach()
        _same_structure(ctx, "detach", op, c)
        for t in _tensors(c):
            if t.requires_grad:
                ctx.fail("detach:requires_grad", "detached copy still requires grad")
        _value_checks(ctx, "detach", c, ref, X)
        return
    if g == "rebuild":
        try:
            rep = op.representation()
        except RuntimeError as e:
            ctx.fail("representation:raises", f"{type(e).__name__}: {e}")
            return
        c = op.representation_tree()(*rep)
        _same_structure(ctx, "rebuild", op, c)
        _value_checks(ctx, "rebuild", c, ref, X)
        c2 = op.evaluate_kernel()
        attempt(ctx, "evaluate_kernel.to_dense", lambda: ctx.eq(c2.to_dense(), ref, "evaluate_kernel.to_dense"))
        return
    if g in ("to32", "default_dtype"):
        if g == "default_dtype":
            torch.set_default_dtype(torch.float64)
            conv = [("float", lambda o: o.float())]
        else:
            conv = [("to(float32)", lambda o: o.to(torch.float32)), ("type(float32)", lambda o: o.type(torch.float32))]
        for tag, f in conv:
            def chk(tag=tag, f=f):
                c = f(op)
                _same_structure(ctx, tag, op, c)
                if c.dtype != torch.float32:
                    ctx.fail(f"{tag}:dtype", f"operator dtype {c.dtype}")
                for t in _tensors(c):
                    if t.dtype.is_floating_point and t.dtype != torch.float32:
                        ctx.fail(f"{tag}:tensor-dtype", f"float tensor left as {t.dtype}")
                d = c.to_dense()
                if d.dtype != torch.float32:
                    ctx.fail(f"{tag}:to_dense-dtype", f"{d.dtype}")
                ctx.eq(d, ref, f"{tag}.to_dense")
                X32 = X.to(torch.float32)
                r = c @ X32
                if r.dtype != torch.float32:
                    ctx.fail(f"{tag}:matmul-dtype", f"{r.dtype}")
                ctx.eq(r, ref @ X, f"{tag}.matmul")
                if c.shape[-1] == c.shape[-2]:
                    try:
                        dg = c.diagonal()
                    except Exception:  # noqa: BLE001  (whether diagonal() works at all is C03's business)
                        dg = None
                    if dg is not None and dg.dtype != torch.float32:
                        ctx.fail(f"{tag}:diagonal-dtype", f"{dg.dtype}")
                # and back
                cd = c.double()
                if cd.dtype != torch.float64:
                    ctx.fail(f"{tag}:double-dtype", f"{cd.dtype}")
                dd = cd.to_dense()
                if dd.dtype != torch.float64:
                    ctx.fail(f"{tag}:double.to_dense-dtype", f"{dd.dtype}")
                ctx.eq(dd, ref, f"{tag}.double.to_dense")
                cc = c.cpu()
                ctx.eq(cc.to_dense(), ref, f"{tag}.cpu.to_dense")

            attempt(ctx, tag, chk)
        return
    if g == "requires_grad":
        def chk():
            c = op.clone()
            fl = [t for t in _tensors(c) if t.dtype.is_floating_point]
            if not fl:
                return
            c.requires_grad_(True)
            for t in _tensors(c):
                if t.dtype.is_floating_point and not t.requires_grad:
                    ctx.fail("requires_grad_:float", "a floating tensor was not marked")
                if not t.dtype.is_floating_point and t.requires_grad:
                    ctx.fail("requires_grad_:int", "a non-floating tensor was marked")
            if not c.requires_grad:
                ctx.fail("requires_grad:property", "operator.requires_grad is False after requires_grad_(True)")
            ctx.eq(c.to_dense(), ref, "requires_grad_.to_dense")
            c.requires_grad_(False)
            if any(t.requires_grad for t in _tensors(c) if t.is_leaf):
                ctx.fail("requires_grad_(False)", "still requires grad")
        attempt(ctx, "requires_grad_", chk)
        return
    raise ValueError(g)
