"""C18 — Gaussian sampling uses a true square root of the covariance."""
from __future__ import annotations

import torch

from catalog.builders import BUILDERS
from linear_operator import settings
from props.common import SIGNALS, attempt

PID = "C18"
CONCLUSIVE_FLOOR = {"quick": 30, "thorough": 80}

BUILDERS_18 = ["DensePD", "Diag", "ConstantDiag", "Identity", "CholLower", "AddedDiag", "LowRankRootAddedDiag", "PsdSum", "BlockDiag",
               "BlockInterleaved", "KroneckerPD", "ConstantMulPos", "BatchRepeatPD", "Root", "LowRankRoot", "InterpPD", "Zero", "DenseEig", "SumPD"]
CONFIGS = ["default", "chol_roots"]


def cells(tier, seed):
    out = []
    for name in BUILDERS_18:
        for batch in ((), (2,)):
            if name in ("DenseEig",) and batch:
                continue
            if tier == "quick" and batch and name not in ("DensePD", "Diag", "BlockDiag", "PsdSum", "InterpPD", "Identity"):
                continue
            for k in (1, 2):
                for cfg in CONFIGS:
                    if tier == "quick" and (k == 2 and cfg == "chol_roots"):
                        continue
                    out.append({"id": f"{name}/b{'x'.join(map(str, batch)) or '-'}/k{k}/{cfg}",
                                "params": {"builder": name, "n": 2, "batch": list(batch), "k": k, "cfg": cfg}})
    # sampling from an object that already holds cached factorisations: the sampler's root method is chosen from the cache
    for name in ("DenseEig", "AddedConstDiagEig", "KroneckerEig"):
        for prior in ("diagonalization", "eigh", "root_inv", "cholesky"):
            out.append({"id": f"{name}/b-/k1/after_{prior}", "params": {"builder": name, "n": 2, "batch": [], "k": 1, "cfg": "default", "prior": prior}})
    return out


def explore_opts(params, tier):
    return {"timeout_s": 2.0 if tier == "quick" else 20.0, "max_paths": 4, "norm_first": True, "path_budget_s": 120.0,
            "engine_opts": {"cut_sites": ("make_sparse_from_indices_and_values",)}}


def describe(tier):
    return {
        "bounds": {"n": 2, "k": [1, 2], "batch": ["()", "(2,)"], "configs": CONFIGS, "builders": BUILDERS_18},
        "outside": ["ciq_samples(True) (contour-integral quadrature, see C11)", "Lanczos roots (sizes stay below max_cholesky_size)", "n > 2"],
        "assumptions": ["the base noise is not sampled but INJECTED: the random draws of the library are replaced once by symbolic tensors Z and "
                        "once by each unit vector e_j, so the sampler is observed as a map Z -> samples; obligations: samples(Z) == sum_j Z_j samples(e_j) "
                        "for all Z (linear, no constant part, map independent of the noise) and sum_j R_j R_j^T == dense covariance per batch member",
                        "PsdSum-type samplers draw several noises: all draws are injected, the R_j range over all of them"],
    }


def _interp_pd(ctx, n, batch, p):
    import linear_operator.operators as O
    from catalog.builders import interp_matrix
    m = n + 1
    L = ctx.leaf(p + "L", batch + (m, m), tril=True, posdiag=True)
    K = L @ L.mT
    ctx.register_chol(K, L)
    li = ctx.leaf(p + "li", batch + (n, 2), kind="int", lo=0, hi=m)
    lv = ctx.leaf(p + "lv", batch + (n, 2))
    op = O.InterpolatedLinearOperator(O.DenseLinearOperator(K), li, lv, li, lv)
    W = interp_matrix(li, lv, m)
    return op, W @ K @ W.mT


def _sum_pd(ctx, n, batch, p):
    import linear_operator.operators as O
    L = ctx.leaf(p + "L", batch + (n, n), tril=True, posdiag=True)
    d = ctx.leaf(p + "d", batch + (n,), positive=True)
    A = L @ L.mT
    ctx.register_chol(A, L)
    return O.SumLinearOperator(O.DenseLinearOperator(A), O.DiagLinearOperator(d)), A + torch.diag_embed(d)


def harness(ctx):
    p = ctx.params
    name = p["builder"]
    batch = tuple(p["batch"])
    if name == "InterpPD":
        op, ref = _interp_pd(ctx, p["n"], batch, "")
    elif name == "SumPD":
        op, ref = _sum_pd(ctx, p["n"], batch, "")
    else:
        op, ref = BUILDERS[name](ctx, p["n"], batch)
    k = p["k"]
    N = ref.shape[-1]
    prior = p.get("prior")
    if prior:
        def warm():
            if prior == "diagonalization":
                op.diagonalization()
            elif prior == "eigh":
                op.eigh()
            elif prior == "root_inv":
                op.root_inv_decomposition()
            elif prior == "cholesky":
                op.cholesky()
        attempt(ctx, "prior:" + prior, warm)
    import contextlib
    cm = settings.fast_computations(covar_root_decomposition=False) if p["cfg"] == "chol_roots" else contextlib.nullcontext()

    def sample():
        with cm:
            return op.zero_mean_mvn_samples(k)

    def chk():
        n0 = len(ctx.rng_shapes())
        s0 = sample()  # discovery run: which draws does this sampler make?
        shapes = ctx.rng_shapes()[n0:]
        want_shape = (k,) + tuple(ref.shape[:-1])
        if tuple(s0.shape) != want_shape:
            ctx.fail("shape", f"{tuple(s0.shape)} vs {want_shape}")
            return
        if not shapes:
            # a sampler that draws nothing must represent the zero covariance
            ctx.eq(ref, torch.zeros_like(ref), "no random draw => covariance must be zero")
            ctx.eq(s0, torch.zeros_like(s0), "no random draw => samples must be zero")
            return
        total = sum(int(torch.Size(s).numel()) for s in shapes)
        if total > 24:
            raise SIGNALS[0](f"sampler draws {total} noise entries: too many unit-vector runs")
        Z = [ctx.leaf(f"noiseZ{i}", s, requires_grad=False) for i, s in enumerate(shapes)]
        ctx.rng_inject(list(Z))
        sZ = sample()
        # unit responses
        R = []
        for i, s in enumerate(shapes):
            for j in range(int(torch.Size(s).numel())):
                inj = []
                for i2, s2 in enumerate(shapes):
                    e = torch.zeros(int(torch.Size(s2).numel()), dtype=torch.float64)
                    if i2 == i:
                        e[j] = 1.0
                    inj.append(e.reshape(s2))
                ctx.rng_inject(inj)
                R.append(((i, j), sample()))
        lin = torch.zeros_like(sZ)
        for (i, j), r in R:
            lin = lin + Z[i].reshape(-1)[j] * r
        ctx.eq(sZ, lin, "samples(Z) == sum_j Z_j * samples(e_j)  (fixed linear map, no constant part)")
        ctx.eq(sample.__call__() if False else sZ * 0 + sZ, sZ, "noop")
        # covariance of sample number s: sum_j R_j[s] R_j[s]^T ; distinct sample slots must be independent
        for s_ in range(k):
            cov = torch.zeros_like(ref)
            for _, r in R:
                v = r[s_]
                cov = cov + v.unsqueeze(-1) * v.unsqueeze(-2)
            ctx.eq(cov, ref, f"sum_j R_j R_j^T == covariance (sample slot {s_})")
        if k == 2:
            cross = torch.zeros_like(ref)
            for _, r in R:
                cross = cross + r[0].unsqueeze(-1) * r[1].unsqueeze(-2)
            ctx.eq(cross, torch.zeros_like(ref), "distinct draws are uncorrelated")
    attempt(ctx, "sampling", chk)
