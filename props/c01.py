"""C01 — every operator acts exactly as the dense matrix it represents."""
from __future__ import annotations

import torch

from catalog.builders import BUILDERS
from props.common import attempt, rhs_shapes

PID = "C01"
CONCLUSIVE_FLOOR = {"quick": 100, "thorough": 300}

EXCLUDE = set()


def cells(tier, seed):
    out = []
    if tier == "quick":
        shapes = [(2, ())]
        bshapes = [(2, (2,))]
        groups = ["dense", "matmul", "rmatmul", "transpose"]
    else:
        shapes = [(1, ()), (2, ()), (3, ())]
        bshapes = [(2, (2,)), (2, (1,)), (2, (2, 1)), (1, (2,))]
        groups = ["dense", "matmul", "rmatmul", "transpose", "bcast"]
    two_batch = {"Interpolated", "Sum(Interp,Dense)", "Toeplitz", "Kronecker", "BatchRepeat", "Diag", "BlockDiag", "Sum", "ConstantMul"}
    for name, b in BUILDERS.items():
        if name in EXCLUDE:
            continue
        extra = [(2, (2, 2))] if (name in two_batch and tier == "quick") else []
        for n, batch in shapes + bshapes + extra:
            if n < b.min_n:
                continue
            if name in ("Permutation",) and n not in (1, 2, 3, 4):
                continue
            if name in ("BlockDiagDim", "TransposePermutation") and (batch != () or n > 2):
                continue
            if "nested" in b.tags and (n > 2 or (len(batch) > 1 and name not in two_batch)):
                continue
            if "fixedbatch" in b.tags and (n != 2 or batch):
                continue
            if "eig" in b.tags and (n != 2 or batch):
                continue
            for g in groups:
                out.append({"id": f"{name}/n{n}/b{'x'.join(map(str, batch)) or '-'}/{g}",
                            "params": {"builder": name, "n": n, "batch": list(batch), "group": g}})
    return out


def explore_opts(params, tier):
    return {"timeout_s": 1.0 if tier == "quick" else 30.0, "max_paths": 8,
            "engine_opts": {"cut_sites": ("make_sparse_from_indices_and_values",)}}


def describe(tier):
    return {
        "bounds": {"matrix_size_n": [2] if tier == "quick" else [1, 2, 3], "batch_shapes": ["()", "(2,)"] if tier == "quick" else ["()", "(2,)", "(1,)", "(2,1)"],
                   "nesting_depth": 2, "rhs_kinds": ["vec", "mat", "batched", "broadcast-batched (thorough)"],
                   "builders": sorted(BUILDERS)},
        "outside": ["KeOpsLinearOperator (pykeops not installed)", "n > 3", "IEEE rounding", "float32 numerics (dtype metadata only)"],
        "assumptions": ["generic-case cut: interpolation values are non-zero inside make_sparse_from_indices_and_values "
                        "(the zero-value paths are explored by C20)",
                        "dense references are written from the documented meaning of each structure in catalog/builders.py",
                        "interpolation indices are symbolic integers in range; masks / permutations are concrete (they fix shapes)"],
    }


def harness(ctx):
    p = ctx.params
    b = BUILDERS[p["builder"]]
    batch = tuple(p["batch"])
    op, ref = b(ctx, p["n"], batch)
    g = p["group"]
    m_out, n_in = ref.shape[-2], ref.shape[-1]
    obatch = tuple(ref.shape[:-2])

    if g == "dense":
        if tuple(op.shape) != tuple(ref.shape):
            ctx.fail("shape", f"{tuple(op.shape)} vs {tuple(ref.shape)}")
        if tuple(op.size()) != tuple(ref.shape) or op.dim() != ref.dim() or op.ndimension() != ref.dim():
            ctx.fail("size/dim", f"{tuple(op.size())} dim {op.dim()}")
        if tuple(op.batch_shape) != obatch or tuple(op.matrix_shape) != (m_out, n_in):
            ctx.fail("batch_shape/matrix_shape", f"{tuple(op.batch_shape)} {tuple(op.matrix_shape)}")
        if op.numel() != ref.numel():
            ctx.fail("numel", f"{op.numel()} vs {ref.numel()}")
        if op.size(-1) != n_in or op.size(-2) != m_out:
            ctx.fail("size(dim)", f"{op.size(-2)},{op.size(-1)}")
        attempt(ctx, "to_dense", lambda: ctx.eq(op.to_dense(), ref, "to_dense"))
        attempt(ctx, "mT.to_dense", lambda: ctx.eq(op.mT.to_dense(), ref.mT, "mT.to_dense"))
        attempt(ctx, "transpose(-1,-2).to_dense", lambda: ctx.eq(op.transpose(-1, -2).to_dense(), ref.mT, "transpose.to_dense"))
        return

    if g in ("matmul", "bcast"):
        kinds = ["vec", "mat", "batched"] if g == "matmul" else ["bcast"]
        for k, shp in rhs_shapes(n_in, obatch, kinds).items():
            X = ctx.leaf(f"argX{k}", shp)
            try:
                expect = ref @ X
            except RuntimeError:
                continue  # torch itself rejects this combination: C19's business

            def chk(X=X, expect=expect, k=k):
                res = op @ X
                ctx.eq(res, expect, f"matmul[{k}]")
                res2 = op.matmul(X)
                ctx.eq(res2, expect, f"matmul()[{k}]")

            attempt(ctx, f"matmul[{k}]", chk)
            if X.dim() >= 2 and tuple(X.shape[:-2]) == obatch:
                attempt(ctx, f"_matmul[{k}]", lambda X=X, expect=expect, k=k: ctx.eq(op._matmul(X), expect, f"_matmul[{k}]"))
        return

    if g == "rmatmul":
        for k, shp in {"vec": (m_out,), "mat": (2, m_out), "batched": obatch + (1, m_out) if obatch else (2, 1, m_out)}.items():
            Y = ctx.leaf(f"argY{k}", shp)
            expect = Y @ ref
            attempt(ctx, f"rmatmul[{k}]", lambda Y=Y, expect=expect, k=k: ctx.eq(Y @ op, expect, f"rmatmul[{k}]"))
            attempt(ctx, f"rmatmul()[{k}]", lambda Y=Y, expect=expect, k=k: ctx.eq(op.rmatmul(Y), expect, f"rmatmul()[{k}]"))
        return

    if g == "transpose":
        for k, shp in rhs_shapes(m_out, obatch, ["vec", "mat"]).items():
            X = ctx.leaf(f"argX{k}", shp)
            expect = ref.mT @ X
            attempt(ctx, f"mT@[{k}]", lambda X=X, expect=expect, k=k: ctx.eq(op.mT @ X, expect, f"mT@[{k}]"))
            if X.dim() >= 2:
                attempt(ctx, f"_t_matmul[{k}]", lambda X=X, expect=expect, k=k: ctx.eq(op._t_matmul(X), expect, f"_t_matmul[{k}]"))
        attempt(ctx, "mT.mT", lambda: ctx.eq(op.mT.mT.to_dense(), ref, "mT.mT.to_dense"))
        return
    raise ValueError(g)
