"""helpers shared by property harnesses"""
from __future__ import annotations

import torch

from symtrace import terms as T
from symtrace.engine import REPO_PREFIX, EngineMismatch, PathAbort, UnsupportedOp

SIGNALS = (UnsupportedOp, EngineMismatch, T.UnsupportedTerm, T.NonFinite)


def attempt(ctx, label, fn, expect_ok=True):
    """run one sub-check; a library exception where the dense computation succeeds is a (concrete) violation"""
    try:
        fn()
    except SIGNALS:
        raise
    except Exception as e:  # noqa: BLE001  (BaseException = path steering, must propagate)
        if getattr(ctx, "symbolic", False):
            ctx.eng.resurface(e)
        if expect_ok:
            ctx.fail(label + ":raises", f"{type(e).__name__}: {str(e)[:200]}")


def rhs_shapes(n_in, batch, kinds):
    """right-hand-side shapes by kind for an operator with batch shape `batch` and inner dimension n_in"""
    out = {}
    for k in kinds:
        if k == "vec":
            out[k] = (n_in,)
        elif k == "mat":
            out[k] = (n_in, 2)
        elif k == "col":
            out[k] = (n_in, 1)
        elif k == "batched":
            out[k] = tuple(batch) + (n_in, 2) if batch else (2, n_in, 1)
        elif k == "bcast":
            out[k] = (2, 1) + (n_in, 1) if not batch else (2,) + tuple(1 for _ in batch) + (n_in, 1)
    return out


import re
import traceback

_UNSUPPORTED_RE = re.compile(r"not (yet )?(supported|implemented)|unsupported|does not support|do not support|doesn't support|cannot (be )?index|"
                             r"can only|currently|only (supports?|works|implemented|defined)|must be|should be|expected", re.I)


def explicit_unsupported(e):
    """an explicit not-supported error: NotImplementedError, or a RuntimeError / ValueError / TypeError raised by a `raise`
    statement inside linear_operator whose message states the limitation"""
    if isinstance(e, NotImplementedError):
        return True
    if isinstance(e, (RuntimeError, ValueError, TypeError)):
        tb = traceback.extract_tb(e.__traceback__)
        last = tb[-1] if tb else None
        if last is not None and last.filename.startswith(REPO_PREFIX):
            # the frame's current line is inside a multi-line `raise X(...)` statement or the raise itself
            return bool(_UNSUPPORTED_RE.search(str(e)))
    return False
