"""C10 — pivoted Cholesky under-approximates greedily; its preconditioner is exact."""
from __future__ import annotations

import torch

import linear_operator.operators as O
from linear_operator import settings
from props.common import SIGNALS, attempt
from props.linalg_oracles import det_ref

PID = "C10"
CONCLUSIVE_FLOOR = {"quick": 20, "thorough": 50}
TOLS = {"default": None, "loose": 10.0, "tight": 1e-12}


def cells(tier, seed):
    out = []
    for n in (2, 3):
        for rank in range(1, n + 2):
            for tol in TOLS:
                for cls in ("Dense",) + (("Toeplitz", "AddedDiag") if n == 2 else ()):
                    if tier == "quick" and n == 3 and (tol != "tight" or rank not in (1, 3)):
                        continue
                    out.append({"id": f"pc/{cls}/n{n}/r{rank}/{tol}", "params": {"group": "pc", "cls": cls, "n": n, "rank": rank, "tol": tol, "batch": []}})
    out.append({"id": "pc/Dense/n2/r2/tight/b2", "params": {"group": "pc", "cls": "Dense", "n": 2, "rank": 2, "tol": "tight", "batch": [2]}})
    for diag in ("const", "vector", "batched_const"):
        for size in (1, 2):
            out.append({"id": f"precond/{diag}/n2/k{size}", "params": {"group": "precond", "diag": diag, "n": 2, "k": size, "batch": [2] if diag == "batched_const" else []}})
    return out


def explore_opts(params, tier):
    return {"timeout_s": 5.0 if tier == "quick" else 30.0, "max_paths": 40, "norm_first": True, "path_budget_s": 120.0, "engine_opts": {}}


def describe(tier):
    return {
        "bounds": {"n": [2, 3], "rank": "1..n+1", "error_tol": TOLS, "input classes": ["Dense", "Toeplitz", "AddedDiag (row extraction through indexing)"],
                   "noise": ["constant", "per-element", "batched constant"], "max_preconditioner_size": [1, 2]},
        "outside": ["residual PSD-ness beyond its diagonal (n = 3 leading minors)", "n > 3", "the randomized-SVD beta preconditioner"],
        "assumptions": ["argmax is a fork: one path per pivot order; ties are non-strict on one side (first maximum wins, as torch on CPU)",
                        "QR of [L; D^(1/2)] through the Gram-Cholesky stub"],
    }


def build(ctx, p):
    n, batch = p["n"], tuple(p["batch"])
    if p.get("cls", "Dense") == "Dense":
        L = ctx.leaf("L", batch + (n, n), tril=True, posdiag=True)
        A = L @ L.mT
        return O.DenseLinearOperator(A), A
    if p["cls"] == "Toeplitz":
        # a PD Toeplitz 2x2: c0 > |c1|
        c1 = ctx.leaf("c1", (), lo=-1.0, hi=1.0)
        e = ctx.leaf("e", (), positive=True)
        col = torch.stack([c1.abs() + e, c1])
        return O.ToeplitzLinearOperator(col), torch.stack([torch.stack([col[0], col[1]]), torch.stack([col[1], col[0]])])
    L = ctx.leaf("L", batch + (n, n), tril=True, posdiag=True)
    d = ctx.leaf("d", batch + (n,), positive=True)
    A = L @ L.mT
    return O.AddedDiagLinearOperator(O.DenseLinearOperator(A), O.DiagLinearOperator(d)), A + torch.diag_embed(d)


def harness(ctx):
    p = ctx.params
    n = p["n"]
    if p["group"] == "pc":
        op, A = build(ctx, p)
        tol = TOLS[p["tol"]]
        rank = p["rank"]

        def chk():
            Lp, perm = op.pivoted_cholesky(rank=rank, error_tol=tol, return_pivots=True)
            r = Lp.shape[-1]
            if Lp.shape[-2] != n or r > min(rank, n):
                ctx.fail("shape", f"L has shape {tuple(Lp.shape)} for n={n}, rank={rank}")
                return
            pv = ctx.shadow(perm)
            flat = pv.reshape(-1, n)
            for row in flat.tolist():
                if sorted(row) != list(range(n)):
                    ctx.fail("permutation", f"{row} is not a permutation")
                    return
            Rm = A - Lp @ Lp.mT
            dg = torch.diagonal(Rm, dim1=-2, dim2=-1)
            ctx.true(dg >= 0, "residual diagonal >= 0")
            ctx.true(torch.diagonal(A, dim1=-2, dim2=-1).sum(-1) >= dg.sum(-1), "residual trace <= trace(A)")
            # pivot rows / columns of the residual vanish; every pivot was a maximal remaining diagonal entry
            for bi in range(flat.shape[0]):
                Ab = A.reshape(-1, n, n)[bi]
                Rb = Rm.reshape(-1, n, n)[bi]
                Lb = Lp.reshape(-1, n, r)[bi]
                for k in range(r):
                    pk = int(flat[bi, k])
                    ctx.eq(Rb[pk, :], torch.zeros(n, dtype=torch.float64), f"residual row of pivot {k} vanishes")
                    Rk = Ab - Lb[:, :k] @ Lb[:, :k].mT if k else Ab
                    rest = [int(flat[bi, j]) for j in range(k, n)]
                    ctx.true(Rk[pk, pk] >= torch.diagonal(Rk)[rest], f"pivot {k} is a largest remaining residual diagonal entry")
            if r == n:
                ctx.eq(Lp @ Lp.mT, A, "L L^T = A at full rank")
            if r < min(rank, n):
                t = settings.preconditioner_tolerance.value() if tol is None else tol
                ctx.true(dg.sum(-1) <= t * torch.diagonal(A, dim1=-2, dim2=-1).max(-1)[0], "early stop only below the error tolerance")
        attempt(ctx, "pivoted_cholesky", chk)
        return
    # preconditioner of K + D
    batch = tuple(p["batch"])
    L = ctx.leaf("L", batch + (n, n), tril=True, posdiag=True)
    K = L @ L.mT
    if p["diag"] == "const":
        c = ctx.leaf("noise", (1,), positive=True)
        D = O.ConstantDiagLinearOperator(c, diag_shape=n)
        Dd = torch.diag_embed(c.expand(n))
    elif p["diag"] == "batched_const":
        c = ctx.leaf("noise", batch + (1,), positive=True)
        D = O.ConstantDiagLinearOperator(c, diag_shape=n)
        Dd = torch.diag_embed(c.expand(*batch, n))
    else:
        dv = ctx.leaf("noise", (n,), positive=True)
        D = O.DiagLinearOperator(dv)
        Dd = torch.diag_embed(dv)
    op = O.AddedDiagLinearOperator(O.DenseLinearOperator(K), D)

    def chk():
        with settings.min_preconditioning_size(0), settings.max_preconditioner_size(p["k"]):
            closure, plt, logdet = op._preconditioner()
            if closure is None:
                ctx.fail("preconditioner", "no preconditioner returned although min_preconditioning_size = 0")
                return
            Lp = op._piv_chol_self
            P = Lp @ Lp.mT + Dd
            V = ctx.leaf("argV", batch + (n, 1))
            ctx.eq(P @ closure(V), V.expand_as(P @ closure(V)), "(L L^T + D) closure(v) = v")
            ctx.eq(plt.to_dense(), P, "returned operator densifies to L L^T + D")
            ctx.eq(logdet, torch.log(det_ref(P)), "logdet = log det(L L^T + D)")
            W = ctx.leaf("argW", batch + (n, 1))
            ctx.eq((W * closure(V)).sum(-2), (V * closure(W)).sum(-2), "preconditioner is symmetric")
    attempt(ctx, "preconditioner", chk)
