"""C11 — MINRES solves all shifted systems; contour quadrature gives the matrix root (partly out of reach)."""
from __future__ import annotations

import torch

import linear_operator.operators as O
from linear_operator.utils.contour_integral_quad import contour_integral_quad
from linear_operator.utils.minres import minres
from props.common import SIGNALS, attempt

PID = "C11"
CONCLUSIVE_FLOOR = {"quick": 10, "thorough": 20}


def cells(tier, seed):
    out = []
    for K in ("full", "diag"):
        for shifts in ("none", "scalar", "vec2", "batched"):
            for value in ("none", "neg1"):
                for cols in (1, 2):
                    for pc in ("none", "diag"):
                        if tier == "quick" and (cols == 2 and pc == "diag"):
                            continue
                        out.append({"id": f"minres/n2{K}/{shifts}/{value}/c{cols}/{pc}",
                                    "params": {"group": "minres", "n": 2, "shifts": shifts, "value": value, "cols": cols, "pc": pc, "K": K}})
    out.append({"id": "minres/zero_col", "params": {"group": "zero_col", "n": 2}})
    out.append({"id": "minres/homog", "params": {"group": "homog", "n": 2}})
    out.append({"id": "minres/n1", "params": {"group": "minres", "n": 1, "shifts": "vec2", "value": "none", "cols": 1, "pc": "none"}})
    out.append({"id": "minres/stop_order/n16", "params": {"group": "stop_order", "n": 16}})
    for inverse in (True, False):
        out.append({"id": f"ciq/supplied/inverse{int(inverse)}", "params": {"group": "ciq", "n": 2, "inverse": inverse}})
    return out


def explore_opts(params, tier):
    if params["group"] == "stop_order":
        return {"timeout_s": 10.0, "max_paths": 4, "norm_first": True, "path_budget_s": 240.0,
                "engine_opts": {"cut_sites": ("minres", "_jit_minres_updates"), "symfloat_sites": ("minres",)}, "on_nonreplay": "inconclusive"}
    return {"timeout_s": 10.0 if tier == "quick" else 40.0, "max_paths": 8, "norm_first": True, "path_budget_s": 180.0,
            "engine_opts": {"cut_sites": ("minres", "_jit_minres_updates"), "item_whitelist": ("minres",)}, "on_nonreplay": "inconclusive"}


def describe(tier):
    return {
        "bounds": {"n": "2 (full symbolic L L^T), 1", "columns": [1, 2], "shifts": ["none", "0-d", "vector of 2", "batched (2,1,1)"], "value": [None, -1],
                   "iterations": "max_iter = 0, i.e. the loop runs n iterations: exact at full Krylov dimension"},
        "outside": ["the quadrature nodes / weights of contour_integral_quad (scipy.special.ellipk / ellipj, then Python floats): the statements "
                    "'weighted sum equals K^(-1/2) b', 'sqrt_inv_matmul twice = A^-1 R', 'CIQ samples have covariance A' are approximation "
                    "statements about an elliptic-function quadrature and are NOT covered", "stopping-tolerance clauses other than the symmetry of the stopping rule in the shifts (stop_order cell)", "n > 2 with symbolic K"],
        "assumptions": ["generic-case cut: the safe-division clamps inside minres are not triggered", "contour_integral_quad is driven with caller-supplied "
                        "shifts and weights (an API the function offers), which exercises its MINRES plumbing only"],
    }


def make_K(ctx, n):
    kind = ctx.params.get("K", "full")
    if kind == "diag":
        return torch.diag_embed(ctx.leaf("kd", (n,), positive=True))
    if kind == "fixed":
        return torch.tensor([[2.0, 1.0], [1.0, 3.0]], dtype=torch.float64)[:n, :n].clone()
    L = ctx.leaf("L", (n, n), tril=True, posdiag=True)
    return L @ L.mT


def stop_order(ctx, n):
    """the stopping rule (every 10th iteration, mean relative update over ALL shifts below minres_tolerance) treats the shifts
    symmetrically: solving with shifts (s0, s1) and with (s1, s0) must stop at the same iteration, i.e. give the same two
    solutions.  K and b are concrete (16 x 16, spectrum 1..100; 14 iterations, so the only convergence test is the one at iteration 10), the two shifts are symbolic; the library's `conv < tolerance`
    comparison is a recorded decision (SymFloat)"""
    from linear_operator import settings
    d = torch.linspace(1.0, 100.0, n, dtype=torch.float64)
    K = torch.diag_embed(d)
    b = (torch.arange(1, n + 1, dtype=torch.float64) / n).reshape(n, 1)
    s0 = ctx.leaf("s_big", (1,), lo=2000, hi=4000)
    s1 = ctx.leaf("s_small", (1,), lo=0, hi=1)
    I = torch.eye(n, dtype=torch.float64)

    def chk():
        with settings.minres_tolerance(1e-6):
            xa = minres(lambda z: K @ z, b, shifts=torch.cat([s0, s1]), max_iter=14)
            xb = minres(lambda z: K @ z, b, shifts=torch.cat([s1, s0]), max_iter=14)
        ctx.eq(xa[0], xb[1], "solution for the large shift does not depend on the order of the shifts")
        ctx.eq(xa[1], xb[0], "solution for the small shift does not depend on the order of the shifts")
    attempt(ctx, "stop_order", chk)


def harness(ctx):
    p = ctx.params
    n, g = p["n"], p["group"]
    if g == "stop_order":
        return stop_order(ctx, n)
    K = make_K(ctx, n)
    I = torch.eye(n, dtype=torch.float64)
    mm = lambda z: K @ z  # noqa: E731
    if g == "minres":
        b = ctx.leaf("rhs", (n, p["cols"]))
        kw = {}
        val = None if p["value"] == "none" else -1
        if val is not None:
            kw["value"] = val
        sh = None
        if p["shifts"] == "scalar":
            sh = ctx.leaf("shift", (), positive=True)
        elif p["shifts"] == "vec2":
            sh = ctx.leaf("shift", (2,), positive=True)
        elif p["shifts"] == "batched":
            sh = ctx.leaf("shift", (2,), positive=True)
        if sh is not None:
            # value = -1 is how contour_integral_quad calls minres: (-K + s I) with s <= 0, a negative-definite system
            sh = sh if val is None else -sh
            kw["shifts"] = sh
        if p["pc"] == "diag":
            dg = ctx.leaf("pdiag", (n, 1), positive=True)
            kw["preconditioner"] = lambda z: z * dg

        def chk():
            x = minres(mm, b, max_iter=0, **kw)
            Kv = K if val is None else K * val
            multi = sh is not None and sh.numel() > 1
            if multi:
                if x.dim() != b.dim() + 1 or x.shape[0] != sh.numel():
                    ctx.fail("shape", f"solution shape {tuple(x.shape)} for {sh.numel()} shifts and rhs {tuple(b.shape)}")
                    return
                for q in range(sh.numel()):
                    ctx.eq((Kv + sh.reshape(-1)[q] * I) @ x[q], b, f"(value K + s_{q} I) x_{q} = b")
            else:
                if tuple(x.shape) != tuple(b.shape):
                    ctx.fail("shape", f"solution shape {tuple(x.shape)} for a single shift and rhs {tuple(b.shape)}")
                    return
                M = Kv if sh is None else Kv + sh * I
                ctx.eq(M @ x, b, "(value K + s I) x = b")
        if val is not None and sh is None:
            return  # -K alone is negative definite: MINRES still applies, but keep the harness to the documented use (with shifts)
        attempt(ctx, "minres", chk)
        return
    if g == "zero_col":
        b1 = ctx.leaf("rhs", (n, 1))
        b = torch.cat([b1, torch.zeros(n, 1, dtype=torch.float64)], dim=-1)
        def chk():
            x = minres(mm, b, max_iter=0)
            ctx.eq(x[:, 1], torch.zeros(n, dtype=torch.float64), "zero column => zero")
            ctx.eq(K @ x[:, :1], b1, "other column solved")
        attempt(ctx, g, chk)
        return
    if g == "homog":
        b = ctx.leaf("rhs", (n, 1))
        t = ctx.leaf("tscale", (), positive=True)
        attempt(ctx, g, lambda: ctx.eq(minres(mm, b * t, max_iter=0), minres(mm, b, max_iter=0) * t, "minres(K, t b) = t minres(K, b)"))
        return
    if g == "ciq":
        b = ctx.leaf("rhs", (n, 1))
        s = ctx.leaf("shift", (2,), positive=True)
        shifts = torch.cat([torch.zeros(1, dtype=torch.float64), -s])  # node 0 is the unshifted solve; the others are negative: (-K + s I) with s < 0
        w = ctx.leaf("weights", (2, 1, 1))
        op = O.DenseLinearOperator(K)
        def chk():
            solves, weights, no_shift, sh_out = contour_integral_quad(op, b, inverse=p["inverse"], weights=w, shifts=shifts)
            ctx.eq(weights, w, "caller-supplied weights are returned unchanged")
            ctx.eq((-K) @ no_shift, b, "no-shift solve: -K x0 = b")
            for q in range(2):
                M = -K + shifts[q + 1] * I
                xq = solves[q] if p["inverse"] else None
                if p["inverse"]:
                    ctx.eq(M @ xq, b, f"(-K + s_{q} I) x_{q} = b")
                else:
                    # not inverse: the returned `solves` are K @ x_q
                    ctx.eq(M @ torch.linalg.solve(K, solves[q]), b, f"solves_{q} = K (-K + s_{q} I)^-1 b")
            comb = (solves * weights).sum(0)
            ref = sum(w[q, 0, 0] * (solves[q]) for q in range(2))
            ctx.eq(comb, ref, "(solves * weights).sum(0) is the stated linear combination")
        attempt(ctx, g, chk)
        return
    raise ValueError(g)
