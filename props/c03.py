"""C03 — indexing and diagonal extraction match torch indexing of the dense matrix."""
from __future__ import annotations

import re
import traceback

import torch

from symtrace.engine import REPO_PREFIX

from catalog.builders import BUILDERS
from linear_operator import settings
from props.common import SIGNALS

PID = "C03"
CONCLUSIVE_FLOOR = {"quick": 200, "thorough": 500}

E = "..."  # Ellipsis marker in JSON-able index specs


def index_specs(ndim, n_rows, n_cols, batch, tier):
    """index tuples as JSON-able specs.  ('T', k, dim) = symbolic 1-D LongTensor of length k for that dim,
    ('T0', dim) = symbolic 0-d LongTensor, ('L', [...]) = python list, ('S', a, b, c) = slice, int, '...', ('T2', shape, dim)"""
    full = ("S", None, None, None)
    R, C = ndim - 2, ndim - 1
    sizes = list(batch) + [n_rows, n_cols]
    specs = []

    def one(pos, item):
        idx = [full] * ndim
        idx[pos] = item
        return idx

    per_pos = []
    for pos in (R, C) + tuple(range(len(batch))):
        n = sizes[pos]
        items = [0, n - 1, -1, -n, ("S", 0, 1, None), ("S", 1, None, None), ("S", None, -1, None) if n > 1 else ("S", None, 1, None),
                 ("S", -1, None, None), ("S", None, None, 2), ("S", 0, n + 5, None), ("S", 0, n, None), ("S", -n - 3, None, None),
                 ("T", 2, pos), ("T0", pos), ("L", [0, -1]), ("L", [n - 1]), ("T", 1, pos), ("T", 3, pos)]
        for it in items:
            per_pos.append(one(pos, it))
    specs += per_pos
    # pairs on the matrix dims
    pair_items_r = [0, -1, ("S", 0, 1, None), ("S", None, None, 2), ("T", 2, R), ("L", [0, -1]), ("S", 1, None, None)]
    pair_items_c = [0, -1, ("S", -1, None, None), ("S", None, None, 2), ("T", 2, C), ("L", [-1, 0]), ("S", 0, n_cols, None)]
    for a in pair_items_r:
        for b in pair_items_c:
            idx = [full] * ndim
            idx[R], idx[C] = a, b
            specs.append(idx)
    # short tuples and ellipsis placements
    specs.append([0] if not batch else [0])
    specs.append([E, 0])
    specs.append([E, ("S", 0, 1, None), 0])
    specs.append([E, ("T", 2, R), ("S", None, None, None)])
    specs.append([0, E])
    specs.append([("T", 2, 0)])
    specs.append([E])
    if batch:
        specs.append([0, E, -1])
        specs.append([("T", 2, 0), E, ("T", 2, C)])
        specs.append([("T", 2, 0), ("T", 2, R), ("T", 2, C)])
        specs.append([("S", None, None, None), ("T", 2, R), ("T", 2, C)])
        specs.append([("T", 2, 0), 0, ("S", None, None, None)])
        specs.append([("T", 2, 0), ("S", None, None, None), ("T", 2, C)])
        specs.append([-1, ("T", 2, R), 0])
        specs.append([("L", [0, 1]), ("L", [0, -1]), ("S", None, None, None)])
    # slices with clamped / over-long / negative-over-long bounds NEXT TO absorbed tensor indices (the _get_indices path)
    if batch:
        for sl in (("S", 1, 100, None), ("S", -100, None, None), ("S", 0, 99, 2), ("S", None, None, -1) if False else ("S", 0, n_cols, None)):
            specs.append([("T", 2, 0), ("T", 2, R), sl])
            specs.append([("T", 2, 0), sl, ("T", 2, C)])
            specs.append([sl, ("T", 2, R), ("T", 2, C)])
    # rank-2 mutually broadcasting tensors (matrix position among them)
    specs.append([full] * (ndim - 2) + [("T2", [2, 1], R), ("T2", [1, 2], C)])
    specs.append([full] * (ndim - 2) + [("T2", [2, 2], R), ("T2", [2, 2], C)])
    if batch:
        specs.append([("T2", [2, 1], 0), ("T2", [1, 2], R), full])
        specs.append([("T2", [2, 1], 0), full, ("T2", [1, 2], C)])
        specs.append([("T2", [2, 1], 0), ("T2", [1, 2], R), ("T2", [2, 2], C)])
    return specs


_NDIM = {}


def _ndim(name, n, batch):
    """number of dimensions of the operator a builder produces (built once, concretely, on zeros)"""
    k = (name, n, batch)
    if k not in _NDIM:
        from symtrace.run import Ctx
        import warnings
        with warnings.catch_warnings():
            warnings.simplefilter("ignore")
            _, ref = BUILDERS[name](Ctx(eng=None, model={}), n, batch)
        _NDIM[k] = ref.dim()
    return _NDIM[k]


def cells(tier, seed):
    out = []
    shapes = [(2, ()), (2, (2,))] if tier == "quick" else [(1, ()), (2, ()), (3, ()), (2, (2,)), (2, (2, 1))]
    group_size = 12
    quick_batched = {"Dense", "Diag", "Toeplitz", "Kronecker", "BlockDiag", "CatRows", "Interpolated", "BatchRepeat"}
    for name, b in BUILDERS.items():
        for n, batch in shapes:
            if tier == "quick" and batch and name not in quick_batched:
                continue
            if name in ("BlockDiagDim", "TransposePermutation") and (batch != () or n > 2):
                continue
            if "nested" in b.tags and (n > 2 or len(batch) > 1):
                continue
            if "fixedbatch" in b.tags and (n != 2 or batch):
                continue
            if "eig" in b.tags:
                continue  # eigen-parametrised variants of Dense / Kronecker / Diag: indexing is covered by the plain builders
            if name == "Cat(Toeplitz,Diag)":
                continue  # CatLinearOperator indexing is covered by CatRows / CatCols / CatBatch (all known-broken, F13)
            # settings.debug(False) skips the library's own index validation: explored for the base shape only (thorough)
            for debug in ((True,) if (tier == "quick" or (n, batch) != (2, ())) else (True, False)):
                out.append({"id": f"{name}/n{n}/b{'x'.join(map(str, batch)) or '-'}/d{int(debug)}/diag",
                            "params": {"builder": name, "n": n, "batch": list(batch), "group": "diag", "debug": debug}})
                # the number of specs depends on ndim only; groups are formed inside the harness by index range
                ndim = _ndim(name, n, batch)
                nspec = len(index_specs(ndim, 2, 2, (2,) * (ndim - 2), tier))
                for g0 in range(0, nspec, group_size):
                    out.append({"id": f"{name}/n{n}/b{'x'.join(map(str, batch)) or '-'}/d{int(debug)}/idx{g0:03d}",
                                "params": {"builder": name, "n": n, "batch": list(batch), "group": "idx", "g0": g0, "g1": g0 + group_size,
                                           "debug": debug}})
    return out


def explore_opts(params, tier):
    return {"timeout_s": 0.6 if tier == "quick" else 5.0, "max_paths": 12,
            "engine_opts": {"cut_sites": ("make_sparse_from_indices_and_values",)}}


def describe(tier):
    return {
        "bounds": {"matrix_size_n": [2] if tier == "quick" else [1, 2, 3], "ndim": "<= 4", "index_kinds": "int (+/-), slices (None / negative / stepped / over-long / stop==size), Ellipsis, 0-d / 1-d LongTensor with SYMBOLIC entries in [-n, n), python lists, rank-2 broadcasting LongTensors",
                   "builders": sorted(BUILDERS), "debug": [True] if tier == "quick" else [True, False]},
        "outside": ["index tuples beyond the enumerated kind combinations", "python ints / slice bounds are concrete (enumerated)", "KeOps"],
        "assumptions": ["an exception is accepted only if it is an explicit not-supported error: NotImplementedError, or a RuntimeError raised by "
                        "a `raise` statement inside linear_operator whose message says the combination is not supported",
                        "LongTensor index entries are symbolic integers: one solver verdict covers every in-range index value"],
    }


_UNSUPPORTED_RE = re.compile(r"not (yet )?(supported|implemented)|unsupported|does not support|do not support|doesn't support|cannot (be )?index|"
                             r"can only|currently", re.I)


def explicit_unsupported(e):
    if isinstance(e, NotImplementedError):
        return True
    if isinstance(e, (RuntimeError, ValueError)):
        tb = traceback.extract_tb(e.__traceback__)
        last = tb[-1] if tb else None
        if last is not None and last.filename.startswith(REPO_PREFIX) and (last.line or "").lstrip().startswith(("raise", '"', "f\"", "'")):
            return bool(_UNSUPPORTED_RE.search(str(e)))
    return False


def build_index(ctx, spec, sizes, tag, neg=True):
    """sizes: full shape of the operator; returns a python index tuple (with symbolic tensors where asked)"""
    out = []
    # the dimension an entry addresses is given inside the spec for tensors
    for j, it in enumerate(spec):
        if it == E:
            out.append(Ellipsis)
        elif isinstance(it, int):
            out.append(it)
        elif it[0] == "S":
            out.append(slice(it[1], it[2], it[3]))
        elif it[0] == "L":
            out.append(list(it[1]))
        elif it[0] == "T":
            n = sizes[it[2]]
            out.append(ctx.leaf(f"{tag}i{j}", (it[1],), kind="int", lo=-n if neg else 0, hi=n, owned=True))
        elif it[0] == "T0":
            n = sizes[it[1]]
            out.append(ctx.leaf(f"{tag}i{j}", (), kind="int", lo=-n if neg else 0, hi=n, owned=True))
        elif it[0] == "T2":
            n = sizes[it[2]]
            out.append(ctx.leaf(f"{tag}i{j}", tuple(it[1]), kind="int", lo=-n if neg else 0, hi=n, owned=True))
        else:
            raise ValueError(it)
    return tuple(out)


def spec_str(spec):
    def f(it):
        if it == E:
            return "..."
        if isinstance(it, int):
            return str(it)
        if it[0] == "S":
            return f"{'' if it[1] is None else it[1]}:{'' if it[2] is None else it[2]}" + (f":{it[3]}" if it[3] is not None else "")
        if it[0] == "L":
            return str(it[1])
        if it[0] == "T":
            return f"LT{it[1]}"
        if it[0] == "T0":
            return "LT0d"
        return f"LT{'x'.join(map(str, it[1]))}"
    return "[" + ",".join(f(i) for i in spec) + "]"


def harness(ctx):
    p = ctx.params
    b = BUILDERS[p["builder"]]
    batch = tuple(p["batch"])
    with settings.debug(p["debug"]):
        op, ref = b(ctx, p["n"], batch)
        sizes = list(ref.shape)
        if p["group"] == "diag":
            if ref.shape[-1] == ref.shape[-2]:
                try:
                    d = op.diagonal()
                    ctx.eq(d, ref.diagonal(dim1=-2, dim2=-1), "diagonal()")
                except SIGNALS:
                    raise
                except Exception as e:  # noqa: BLE001
                    if not explicit_unsupported(e):
                        ctx.fail("diagonal():raises", f"{type(e).__name__}: {str(e)[:160]}")
            return
        specs = index_specs(ref.dim(), ref.shape[-2], ref.shape[-1], tuple(ref.shape[:-2]), "thorough")
        for k, spec in enumerate(specs[p["g0"]:p["g1"]]):
            has_sym = any(isinstance(it, tuple) and it[0] in ("T", "T0", "T2") for it in spec)
            # symbolic index tensors are checked twice: entries in [0, n) and entries in [-n, n) (negative entries
            # are legal torch indices); the two regions carry different labels so findings stay separable
            for neg in ((False, True) if has_sym else (False,)):
                tag = f"s{p['g0'] + k}{'m' if neg else ''}"
                label = spec_str(spec) + (":neg" if neg else "")
                idx = build_index(ctx, spec, sizes, tag, neg=neg)
                try:
                    expect = ref[idx]
                except (IndexError, RuntimeError):
                    continue  # torch rejects this index on the dense matrix: C19's business
                if expect.numel() == 0:
                    continue  # the property is about non-empty selections
                try:
                    res = op[idx]
                    ctx.eq(res, expect, label)
                except SIGNALS:
                    raise
                except Exception as e:  # noqa: BLE001
                    if not explicit_unsupported(e):
                        ctx.fail(label + ":raises", f"{type(e).__name__}: {str(e)[:160]}")
