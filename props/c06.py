"""C06 — every factorization returned really factorizes the operator."""
from __future__ import annotations

import contextlib

import torch

from catalog.builders import BUILDERS
from linear_operator import settings
from props.common import SIGNALS, attempt, explicit_unsupported
from props.linalg_oracles import check_cholesky, check_eigh, check_root, check_root_inv, check_svd, dense

PID = "C06"
CONCLUSIVE_FLOOR = {"quick": 60, "thorough": 150}

CHOL_BUILDERS = ["DensePD", "Diag", "ConstantDiag", "Identity", "CholLower", "CholUpper", "AddedDiag", "AddedConstDiag", "LowRankRootAddedDiag",
                 "PsdSum", "ConstantMulPos", "BatchRepeatPD", "KroneckerPD", "KroneckerDiag", "BlockDiag", "BlockInterleaved", "SumKronecker",
                 "KroneckerAddedConstDiag", "KroneckerAddedDiag", "KroneckerAddedKronDiag", "Root", "LowRankRoot"]
EIG_BUILDERS = ["DenseEig", "AddedConstDiagEig", "KroneckerEig", "KroneckerAddedConstDiagEig", "KroneckerAddedKronDiagEig", "KroneckerAddedKronConstDiagEig",
                "DiagBounded", "ConstantDiagBounded", "Identity"]
OVERRIDE_BUILDERS = ["KroneckerAddedConstDiagEig", "KroneckerAddedKronDiagEig", "KroneckerAddedKronConstDiagEig"]

GROUPS_CHOL = ["cholesky", "root_cholesky", "root_inv_cholesky", "root_default"]
GROUPS_EIG = ["eigh", "root_symeig", "root_inv_symeig", "diagonalization", "direct_above_chol_size"]


def cells(tier, seed):
    out = []
    for name in CHOL_BUILDERS:
        for batch in ((), (2,)):
            if tier == "quick" and batch and name not in ("DensePD", "Diag", "KroneckerPD", "BlockDiag", "AddedDiag"):
                continue
            for g in GROUPS_CHOL:
                out.append({"id": f"{name}/b{'x'.join(map(str, batch)) or '-'}/{g}", "params": {"builder": name, "n": 2, "batch": list(batch), "group": g}})
    for name in EIG_BUILDERS:
        for g in GROUPS_EIG:
            out.append({"id": f"{name}/b-/{g}", "params": {"builder": name, "n": 2, "batch": [], "group": g}})
    for name in OVERRIDE_BUILDERS:
        for g in ("override_root_then_inv", "override_inv_then_root"):
            out.append({"id": f"{name}/b-/{g}", "params": {"builder": name, "n": 2, "batch": [], "group": g}})
    # structured (per-factor) roots of Kronecker products: taken only when the product exceeds max_cholesky_size while its factors do not
    for name in ("KroneckerPD", "KroneckerDiag"):
        for batch in ((), (2,)):
            if tier == "quick" and batch and name != "KroneckerPD":
                continue
            out.append({"id": f"{name}/b{'x'.join(map(str, batch)) or '-'}/structured_above_chol_size",
                        "params": {"builder": name, "n": 2, "batch": list(batch), "group": "structured_above_chol_size"}})
    for name in ("DensePD", "Diag", "AddedDiag", "DenseEig"):
        out.append({"id": f"{name}/b-/lanczos_root", "params": {"builder": name, "n": 2, "batch": [], "group": "lanczos_root"}})
    return out


def explore_opts(params, tier):
    return {"timeout_s": 2.0 if tier == "quick" else 15.0, "max_paths": 8, "norm_first": True, "path_budget_s": 90.0,
            "engine_opts": {"cut_sites": ("lanczos_tridiag",) if params["group"] == "lanczos_root" else ()}}


def describe(tier):
    return {
        "bounds": {"n": 2, "kronecker/block size": 4, "groups": GROUPS_CHOL + GROUPS_EIG + ["lanczos_root", "structured_above_chol_size (max_cholesky_size = 3: 4x4 Kronecker product above, 2x2 factors below)"]},
        "outside": ["svd / pivoted_cholesky / pinverse roots on symbolic matrices without a registered decomposition",
                    "Lanczos roots beyond n = 2", "tolerance clauses",
                    "class-specific roots entered through the default method above max_cholesky_size: the inner Kronecker diagonalization is then "
                    "itself Lanczos-based (approximate, jittered); the same overrides are decided through method='lanczos', where it is exact"],
        "assumptions": ["eigh stub: returns the (w, Q) the harness built A from (ascending w, rotation Q) when the input is provably that A",
                        "Cholesky stub as in C04", "lanczos: tridiagonal_jitter(0), max_iter = n, generic-case cut beta > 1e-6"],
    }


def harness(ctx):
    p = ctx.params
    b = BUILDERS[p["builder"]]
    batch = tuple(p["batch"])
    op, ref = b(ctx, p["n"], batch)
    g = p["group"]
    psd_only = not b.pd
    if g == "cholesky":
        if psd_only:
            return
        attempt(ctx, "cholesky", lambda: check_cholesky(ctx, op.cholesky(), ref, False, "cholesky()"))
        attempt(ctx, "cholesky(upper)", lambda: check_cholesky(ctx, op.cholesky(upper=True), ref, True, "cholesky(upper=True)"))
        attempt(ctx, "torch.cholesky", lambda: check_cholesky(ctx, torch.linalg.cholesky(op), ref, False, "torch.linalg.cholesky"))
        # order of the two calls must not matter (cache keyed by the flag)
        def both():
            op2, ref2 = b(ctx, p["n"], batch, p="second_")
            U = op2.cholesky(upper=True)
            L = op2.cholesky()
            check_cholesky(ctx, L, ref2, False, "cholesky() after cholesky(upper=True)")
            check_cholesky(ctx, U, ref2, True, "cholesky(upper=True) before cholesky()")
        attempt(ctx, "cholesky-order", both)
        return
    if g == "root_cholesky":
        if psd_only:
            return
        attempt(ctx, g, lambda: check_root(ctx, op.root_decomposition(method="cholesky").root, ref, "root_decomposition(cholesky)"))
        return
    if g == "root_inv_cholesky":
        if psd_only:
            return
        attempt(ctx, g, lambda: check_root_inv(ctx, op.root_inv_decomposition(method="cholesky").root, ref, "root_inv_decomposition(cholesky)"))
        return
    if g == "root_default":
        def chk():
            R = op.root_decomposition().root
            check_root(ctx, R, ref, "root_decomposition()")
        attempt(ctx, g, chk)
        if not psd_only:
            attempt(ctx, g + "_inv", lambda: check_root_inv(ctx, op.root_inv_decomposition().root, ref, "root_inv_decomposition()"))
        return
    if g == "eigh":
        def chk():
            w, Q = op.eigh()
            check_eigh(ctx, w, Q, ref, "eigh()")
            w2 = op.eigvalsh()
            ctx.eq(w2, w, "eigvalsh() == eigh()[0]")
            w3, Q3 = torch.linalg.eigh(op)
            check_eigh(ctx, w3, Q3, ref, "torch.linalg.eigh")
            ctx.eq(torch.linalg.eigvalsh(op), w, "torch.linalg.eigvalsh")
            w4, Q4 = op._symeig(eigenvectors=True)
            check_eigh(ctx, w4, Q4, ref, "_symeig")
        attempt(ctx, g, chk)
        return
    if g == "direct_above_chol_size":
        # the direct methods stay direct when n exceeds max_cholesky_size and the Lanczos rank bound is below n
        def chk():
            with settings.max_cholesky_size(0), settings.max_root_decomposition_size(1):
                w, Q = op.eigh()
                check_eigh(ctx, w, Q, ref, "eigh() above max_cholesky_size")
                ctx.eq(op.eigvalsh(), w, "eigvalsh() above max_cholesky_size")
                w2, Q2 = op.diagonalization(method="symeig")
                check_eigh(ctx, w2, Q2, ref, "diagonalization(symeig) above max_cholesky_size")
                check_root(ctx, op.root_decomposition(method="symeig").root, ref, "root_decomposition(symeig) above max_cholesky_size")
        attempt(ctx, g, chk)
        return
    if g == "structured_above_chol_size":
        def chk():
            with settings.max_cholesky_size(3):
                check_root(ctx, op.root_decomposition().root, ref, "root_decomposition() [per-factor roots, product above max_cholesky_size]")
                check_root_inv(ctx, op.root_inv_decomposition().root, ref, "root_inv_decomposition() [per-factor roots, product above max_cholesky_size]")
                op2, ref2 = b(ctx, p["n"], batch, p="second_")
                check_root_inv(ctx, op2.root_inv_decomposition().root, ref2, "root_inv_decomposition() first [per-factor roots]")
                check_root(ctx, op2.root_decomposition(method="cholesky").root, ref2, "root_decomposition(cholesky) after inverse root [per-factor roots]")
        attempt(ctx, g, chk)
        return
    if g == "root_symeig":
        attempt(ctx, g, lambda: check_root(ctx, op.root_decomposition(method="symeig").root, ref, "root_decomposition(symeig)"))
        return
    if g == "root_inv_symeig":
        attempt(ctx, g, lambda: check_root_inv(ctx, op.root_inv_decomposition(method="symeig").root, ref, "root_inv_decomposition(symeig)"))
        return
    if g == "diagonalization":
        def chk():
            w, Q = op.diagonalization(method="symeig")
            check_eigh(ctx, w, Q, ref, "diagonalization(symeig)")
        attempt(ctx, g, chk)
        return
    if g.startswith("override_"):
        # class-specific roots taken on the Lanczos path (method="lanczos", or the default method above max_cholesky_size);
        # several factorizations of one object share the memoised diagonalization of the inner Kronecker operator
        inner = getattr(op, "linear_op", None)
        def after(tag):
            if inner is not None:
                w, Q = inner.diagonalization()
                check_eigh(ctx, w, Q, ref - dense(op.diag_tensor), f"inner Kronecker diagonalization {tag}")
            w, Q = op.diagonalization()
            check_eigh(ctx, w, Q, ref, f"diagonalization() {tag}")
        def chk():
            if g == "override_root_then_inv":
                check_root(ctx, op.root_decomposition(method="lanczos").root, ref, "root_decomposition(lanczos) [class override]")
                check_root_inv(ctx, op.root_inv_decomposition(method="lanczos").root, ref, "root_inv_decomposition(lanczos) after root")
                after("after roots")
            elif g == "override_inv_then_root":
                check_root_inv(ctx, op.root_inv_decomposition(method="lanczos").root, ref, "root_inv_decomposition(lanczos) [class override]")
                check_root(ctx, op.root_decomposition(method="lanczos").root, ref, "root_decomposition(lanczos) after inverse root")
                after("after roots")
            else:
                raise ValueError(g)
        attempt(ctx, g, chk)
        return
    if g == "lanczos_root":
        def chk():
            with settings.max_cholesky_size(0), settings.tridiagonal_jitter(0.0), settings.max_root_decomposition_size(p["n"]):
                R = op.root_decomposition(method="lanczos").root
                check_root(ctx, R, ref, "root_decomposition(lanczos) at full Krylov dimension")
        attempt(ctx, g, chk)
        return
    raise ValueError(g)
