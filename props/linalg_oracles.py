"""Oracles for factorisation / solve / logdet results: always through the defining products."""
from __future__ import annotations

import torch

from props.common import attempt


def dense(x):
    return x if isinstance(x, torch.Tensor) else x.to_dense()


def eye_like(ref):
    n = ref.shape[-1]
    return torch.eye(n, dtype=ref.dtype).expand(*ref.shape[:-2], n, n)


def check_cholesky(ctx, L, ref, upper, tag):
    Ld = dense(L)
    if upper:
        ctx.eq(torch.tril(Ld, -1), torch.zeros_like(ref), f"{tag}:upper-triangular")
        ctx.eq(Ld.mT @ Ld, ref, f"{tag}:R^T R = A")
    else:
        ctx.eq(torch.triu(Ld, 1), torch.zeros_like(ref), f"{tag}:lower-triangular")
        ctx.eq(Ld @ Ld.mT, ref, f"{tag}:L L^T = A")


def check_eigh(ctx, w, Q, ref, tag):
    Qd = dense(Q)
    ctx.eq(Qd.mT @ Qd, eye_like(ref), f"{tag}:Q^T Q = I")
    ctx.eq(Qd @ torch.diag_embed(w) @ Qd.mT, ref, f"{tag}:Q diag(w) Q^T = A")


def check_svd(ctx, U, S, V, ref, tag):
    Ud, Vd = dense(U), dense(V)
    k = S.shape[-1]
    I = torch.eye(k, dtype=ref.dtype).expand(*ref.shape[:-2], k, k)
    ctx.eq(Ud.mT @ Ud, I, f"{tag}:U^T U = I")
    ctx.eq(Vd.mT @ Vd, I, f"{tag}:V^T V = I")
    ctx.true(S >= 0, f"{tag}:S >= 0")
    ctx.eq(Ud @ torch.diag_embed(S) @ Vd.mT, ref, f"{tag}:U diag(S) V^T = A")


def check_root(ctx, R, ref, tag):
    Rd = dense(R)
    ctx.eq(Rd @ Rd.mT, ref, f"{tag}:R R^T = A")


def check_root_inv(ctx, R, ref, tag):
    Rd = dense(R)
    ctx.eq(ref @ (Rd @ Rd.mT), eye_like(ref), f"{tag}:A (R R^T) = I")


def check_solve(ctx, X, ref, B, tag):
    if B.dim() == 1 or (X.dim() == ref.dim() - 1):
        ctx.eq((ref @ X.unsqueeze(-1)).squeeze(-1), B.expand_as(X) if B.shape != X.shape else B, f"{tag}:A X = B")
    else:
        AX = ref @ X
        ctx.eq(AX, B.expand_as(AX) if B.shape != AX.shape else B, f"{tag}:A X = B")


def det_ref(M):
    """determinant by cofactor expansion along the first row (plain torch ops; n <= 4)"""
    n = M.shape[-1]
    if n == 1:
        return M[..., 0, 0]
    if n == 2:
        return M[..., 0, 0] * M[..., 1, 1] - M[..., 0, 1] * M[..., 1, 0]
    acc = None
    for j in range(n):
        cols = [c for c in range(n) if c != j]
        minor = M[..., 1:, :][..., :, cols]
        term = M[..., 0, j] * det_ref(minor)
        if j % 2:
            term = -term
        acc = term if acc is None else acc + term
    return acc


def logdet_ref(ctx, ref):
    """log det(A) of the dense reference: one log atom whose argument is the Leibniz/cofactor polynomial"""
    return torch.log(det_ref(ref))


def check_linalg_dispatch(ctx, op, ref):
    n = ref.shape[-1]
    B = ctx.leaf("rhsB", (n, 2))
    attempt(ctx, "linalg.solve", lambda: check_solve(ctx, torch.linalg.solve(op, B), ref, B, "torch.linalg.solve"))
    attempt(ctx, "solve", lambda: check_solve(ctx, op.solve(B), ref, B, "method.solve"))
    def inv():
        try:
            Ai = torch.inverse(op)
        except NotImplementedError:
            return  # "only implemented by some LinearOperator subclasses": an explicit not-supported error
        ctx.eq(dense(Ai) @ ref, eye_like(ref), "torch.inverse:inv A = I")
    attempt(ctx, "inverse", inv)
    attempt(ctx, "cholesky", lambda: check_cholesky(ctx, torch.linalg.cholesky(op), ref, False, "torch.linalg.cholesky"))
    attempt(ctx, "cholesky(upper)", lambda: check_cholesky(ctx, torch.linalg.cholesky(op, upper=True), ref, True, "torch.linalg.cholesky(upper)"))
    attempt(ctx, "logdet", lambda: ctx.eq(torch.logdet(op), logdet_ref(ctx, ref), "torch.logdet"))
    attempt(ctx, "logdet()", lambda: ctx.eq(op.logdet(), logdet_ref(ctx, ref), "method.logdet"))
