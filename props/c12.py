"""C12 — cached results are transparent: answers do not depend on query history."""
from __future__ import annotations

import itertools

import torch

from catalog.builders import BUILDERS
from linear_operator import settings
from props.common import SIGNALS, attempt
from props.linalg_oracles import (check_cholesky, check_eigh, check_root, check_root_inv, check_solve, dense, det_ref, eye_like)

PID = "C12"
CONCLUSIVE_FLOOR = {"quick": 100, "thorough": 300}

CHOL_Q = ["to_dense", "cholesky", "cholesky_upper", "root", "root_cholesky", "root_inv", "root_inv_cholesky", "solve", "logdet", "inv_quad_logdet", "diagonal"]
EIG_Q = ["to_dense", "eigh", "root_symeig", "root_inv_symeig", "diagonalization", "solve", "diagonal", "eigvalsh"]
CHOL_BUILDERS = ["DensePD", "KroneckerPD", "AddedDiag", "LowRankRootAddedDiag", "CholLower", "BatchRepeatPD", "Diag", "BlockDiag", "ConstantMulPos", "PsdSum"]
EIG_BUILDERS = ["DenseEig", "KroneckerEig", "KroneckerAddedConstDiagEig"]
DERIVE = ["add_jitter", "add_diagonal", "add_low_rank", "cat_rows", "cat_rows2", "getitem", "mT", "scale", "expand", "neg_scale"]
PRIME = ["cholesky", "root", "root_inv", "solve", "logdet"]


def cells(tier, seed):
    out = []
    for name in CHOL_BUILDERS:
        pairs = list(itertools.product(CHOL_Q, CHOL_Q))
        if tier == "quick" and name not in ("DensePD", "KroneckerPD", "AddedDiag"):
            pairs = [pq for i, pq in enumerate(pairs) if i % 4 == (hash(name) % 4)]
        for q1, q2 in pairs:
            out.append({"id": f"hist/{name}/{q1}>{q2}", "params": {"group": "hist", "builder": name, "n": 2, "qs": [q1, q2]}})
        for d in DERIVE:
            out.append({"id": f"derive/{name}/{d}", "params": {"group": "derive", "builder": name, "n": 2, "derive": d}})
    for name in EIG_BUILDERS:
        for q1, q2 in itertools.product(EIG_Q, EIG_Q):
            out.append({"id": f"hist/{name}/{q1}>{q2}", "params": {"group": "hist", "builder": name, "n": 2, "qs": [q1, q2]}})
    if tier != "quick":
        for name in ("DensePD", "AddedDiag", "KroneckerPD"):
            for qs in itertools.product(["cholesky_upper", "root", "root_inv", "solve"], ["cholesky", "root_cholesky", "logdet"], ["root_inv_cholesky", "cholesky_upper", "solve"]):
                out.append({"id": f"hist/{name}/{'>'.join(qs)}", "params": {"group": "hist", "builder": name, "n": 2, "qs": list(qs)}})
    return out


def explore_opts(params, tier):
    # cat_rows builds its inverse root with stable_pinverse, which adds a 1e-6 jitter when |R_ii| < 1e-6: on that branch the exact
    # identity is off by design, below the replay tolerance -> such counterexamples are inconclusive, not engine errors
    return {"timeout_s": 2.0 if tier == "quick" else 10.0, "max_paths": 4, "norm_first": True, "path_budget_s": 90.0, "engine_opts": {"floor_cut": True},
            "on_nonreplay": "inconclusive" if params.get("derive") in ("cat_rows", "cat_rows2") else "error"}


def describe(tier):
    return {
        "bounds": {"n": 2, "history length": 2 if tier == "quick" else 3, "query alphabet": sorted(set(CHOL_Q + EIG_Q)), "derivations": DERIVE,
                   "builders": CHOL_BUILDERS + EIG_BUILDERS},
        "outside": ["Lanczos / stochastic queries (two runs draw different noise)", "sampling", "settings changing between queries"],
        "assumptions": ["'equals what a fresh copy returns' is checked through the defining identity of each query on the dense reference "
                        "(factorisations are not unique), after every query of the history, on the SAME object",
                        "after a derivation every entry found in the derived object's cache under a factorisation key must factorise the derived matrix",
                        "numerical floors (eigenvalue clamp at 1e-7 in Kronecker logdet / inverse roots) are assumed not to be hit (counted under generic_case_cuts)"],
    }


def run_query(ctx, op, ref, q, tag, rhs):
    if q == "to_dense":
        ctx.eq(op.to_dense(), ref, f"{tag}:to_dense")
    elif q == "cholesky":
        check_cholesky(ctx, op.cholesky(), ref, False, f"{tag}:cholesky")
    elif q == "cholesky_upper":
        check_cholesky(ctx, op.cholesky(upper=True), ref, True, f"{tag}:cholesky(upper)")
    elif q == "root":
        check_root(ctx, op.root_decomposition().root, ref, f"{tag}:root_decomposition")
    elif q == "root_cholesky":
        check_root(ctx, op.root_decomposition(method="cholesky").root, ref, f"{tag}:root_decomposition(cholesky)")
    elif q == "root_symeig":
        check_root(ctx, op.root_decomposition(method="symeig").root, ref, f"{tag}:root_decomposition(symeig)")
    elif q == "root_inv":
        check_root_inv(ctx, op.root_inv_decomposition().root, ref, f"{tag}:root_inv_decomposition")
    elif q == "root_inv_cholesky":
        check_root_inv(ctx, op.root_inv_decomposition(method="cholesky").root, ref, f"{tag}:root_inv_decomposition(cholesky)")
    elif q == "root_inv_symeig":
        check_root_inv(ctx, op.root_inv_decomposition(method="symeig").root, ref, f"{tag}:root_inv_decomposition(symeig)")
    elif q == "eigh":
        w, Q = op.eigh()
        check_eigh(ctx, w, Q, ref, f"{tag}:eigh")
    elif q == "eigvalsh":
        w, Q = op.eigh()
        ctx.eq(op.eigvalsh(), w, f"{tag}:eigvalsh")
    elif q == "diagonalization":
        w, Q = op.diagonalization(method="symeig")
        check_eigh(ctx, w, Q, ref, f"{tag}:diagonalization")
    elif q == "solve":
        check_solve(ctx, op.solve(rhs), ref, rhs, f"{tag}:solve")
    elif q == "logdet":
        ctx.eq(op.logdet(), torch.log(det_ref(ref)), f"{tag}:logdet")
    elif q == "inv_quad_logdet":
        iq, ld = op.inv_quad_logdet(rhs, logdet=True)
        ctx.eq(ld, torch.log(det_ref(ref)), f"{tag}:inv_quad_logdet.logdet")
        ctx.eq(iq, (rhs * (torch.linalg.inv(ref) @ rhs)).sum((-1, -2)), f"{tag}:inv_quad_logdet.inv_quad")
    elif q == "diagonal":
        ctx.eq(op.diagonal(), ref.diagonal(dim1=-2, dim2=-1), f"{tag}:diagonal")
    else:
        raise ValueError(q)


def check_cache(ctx, op, ref, tag):
    """every cached factorisation of `op` must factorise dense(op)"""
    cache = getattr(op, "_memoize_cache", {})
    for key, val in list(cache.items()):
        name = key[0] if isinstance(key, tuple) else key
        try:
            if name == "cholesky":
                args = key[1] if isinstance(key, tuple) else ()
                import pickle
                kw = pickle.loads(key[2]) if isinstance(key, tuple) and key[2] else {}
                upper = bool(kw.get("upper", args[0] if args else False))
                check_cholesky(ctx, val, ref, upper, f"{tag}:cache[cholesky upper={upper}]")
            elif name == "root_decomposition":
                check_root(ctx, val.root if hasattr(val, "root") else val, ref, f"{tag}:cache[root_decomposition]")
            elif name == "root_inv_decomposition":
                check_root_inv(ctx, val.root if hasattr(val, "root") else val, ref, f"{tag}:cache[root_inv_decomposition]")
        except SIGNALS:
            raise


def harness(ctx):
    p = ctx.params
    b = BUILDERS[p["builder"]]
    op, ref = b(ctx, p["n"], ())
    N = ref.shape[-1]
    rhs = ctx.leaf("rhsB", tuple(ref.shape[:-2]) + (N, 1))
    if p["group"] == "hist":
        for k, q in enumerate(p["qs"]):
            attempt(ctx, f"q{k}:{q}", lambda k=k, q=q: run_query(ctx, op, ref, q, f"q{k}[{'>'.join(p['qs'][:k + 1])}]", rhs))
        return
    # derivations after priming the cache
    for q in PRIME:
        try:
            run_query(ctx, op, ref, q, "prime", rhs)
        except SIGNALS:
            raise
        except Exception:  # noqa: BLE001
            pass
    d = p["derive"]
    I = eye_like(ref)
    bs = tuple(ref.shape[:-2])

    def derive():
        if d == "add_jitter":
            return op.add_jitter(0.5), ref + 0.5 * I
        if d == "add_diagonal":
            dd = ctx.leaf("argdd", bs + (N,), positive=True)
            return op.add_diagonal(dd), ref + torch.diag_embed(dd)
        if d == "add_low_rank":
            V = ctx.leaf("argV", bs + (N, 1))
            return op.add_low_rank(V), ref + V @ V.mT
        if d == "cat_rows":
            cross = ctx.leaf("argcross", bs + (1, N))
            s = ctx.leaf("args", bs + (1, 1), lo=0.125, hi=64)  # Schur complement bounded away from 0 (well-conditioned extension)
            new = cross @ torch.linalg.inv(ref) @ cross.mT + s
            full = torch.cat([torch.cat([ref, cross.mT], dim=-1), torch.cat([cross, new], dim=-1)], dim=-2)
            return op.cat_rows(cross, new), full
        if d == "cat_rows2":
            # two rows appended at once: the Schur complement root is a genuine 2x2 triangular factor
            cross = ctx.leaf("argcross", bs + (2, N))
            Ls = ctx.leaf("argLs", bs + (2, 2), tril=True, posdiag=True)
            new = cross @ torch.linalg.inv(ref) @ cross.mT + Ls @ Ls.mT
            full = torch.cat([torch.cat([ref, cross.mT], dim=-1), torch.cat([cross, new], dim=-1)], dim=-2)
            return op.cat_rows(cross, new), full
        if d == "getitem":
            return op[..., :1, :1], ref[..., :1, :1]
        if d == "mT":
            return op.mT, ref.mT
        if d == "scale":
            return op * 2.5, ref * 2.5
        if d == "neg_scale":
            c = ctx.leaf("argc", (), positive=True)
            return op * c, ref * c
        if d == "expand":
            return op.expand(2, *ref.shape), ref.expand(2, *ref.shape)
        raise ValueError(d)

    def chk():
        new_op, new_ref = derive()
        if d in ("cat_rows", "cat_rows2") and ctx.decided_true_in("stable_qr"):
            return  # the near-singular branch of stable_qr (|R_ii| < 1e-6) adds a jitter by design: no exact identity there
        if isinstance(new_op, torch.Tensor):
            ctx.eq(new_op, new_ref, f"{d}:value")
            return
        check_cache(ctx, new_op, new_ref, d)
        ctx.eq(new_op.to_dense(), new_ref, f"{d}:to_dense")
        nr = ctx.leaf("rhsB2", tuple(new_ref.shape[:-2]) + (new_ref.shape[-1], 1))
        for q in ("solve", "cholesky", "root", "root_inv", "logdet"):
            attempt(ctx, f"{d}>{q}", lambda q=q: run_query(ctx, new_op, new_ref, q, f"{d}>", nr))
        # the original object must be unaffected by the derivation
        for q in ("cholesky", "root_inv", "solve"):
            attempt(ctx, f"orig-after-{d}>{q}", lambda q=q: run_query(ctx, op, ref, q, f"orig-after-{d}>", rhs))
    attempt(ctx, d, chk)
