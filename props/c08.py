"""C08 — conjugate gradients converges to the solution and returns true Lanczos matrices."""
from __future__ import annotations

import torch

from linear_operator.utils.linear_cg import linear_cg
from props.common import SIGNALS, attempt
from props.linalg_oracles import det_ref

PID = "C08"
CONCLUSIVE_FLOOR = {"quick": 15, "thorough": 30}
PRECOND = ["none", "jacobi", "exact", "scaled"]


def cells(tier, seed):
    out = []
    for pc in PRECOND:
        for cols in (1, 2):
            for guess in ("none", "given"):
                if tier == "quick" and cols == 2 and guess == "given":
                    continue
                out.append({"id": f"term/n2/{pc}/c{cols}/{guess}", "params": {"group": "term", "n": 2, "precond": pc, "cols": cols, "guess": guess}})
    for pc in ("none", "jacobi"):
        out.append({"id": f"zero_col/n2/{pc}", "params": {"group": "zero_col", "n": 2, "precond": pc, "cols": 2}})
        out.append({"id": f"homog/n2/{pc}", "params": {"group": "homog", "n": 2, "precond": pc, "cols": 1}})
        out.append({"id": f"tridiag/n2/{pc}", "params": {"group": "tridiag", "n": 2, "precond": pc, "cols": 1}})
        out.append({"id": f"monotone/n2/{pc}", "params": {"group": "monotone", "n": 2, "precond": pc, "cols": 1}})
    for pc in ("none", "jacobi"):
        out.append({"id": f"frozen/n2diag/{pc}", "params": {"group": "frozen", "n": 2, "precond": pc, "cols": 2, "diag": True}})
    out.append({"id": "tridiag_breakdown/n2diag/none", "params": {"group": "tridiag_breakdown", "n": 2, "precond": "none", "cols": 2, "diag": True}})
    out.append({"id": "tridiag_breakdown/n3const/none", "params": {"group": "tridiag_breakdown", "n": 3, "precond": "none", "cols": 2, "diag": "const"}})
    out.append({"id": "limits/n2", "params": {"group": "limits", "n": 2, "precond": "none", "cols": 1}})
    out.append({"id": "term/n3diag/none/c1/none", "params": {"group": "term", "n": 3, "precond": "none", "cols": 1, "guess": "none", "diag": True}})
    out.append({"id": "term/n1/none/c1/none", "params": {"group": "term", "n": 1, "precond": "none", "cols": 1, "guess": "none"}})
    return out


def explore_opts(params, tier):
    return {"timeout_s": 10.0 if tier == "quick" else 40.0, "max_paths": 8, "norm_first": True, "path_budget_s": 180.0,
            "engine_opts": {"cut_sites": ("linear_cg",), "item_whitelist": ("linear_cg",)},
            # linear_cg stops as soon as the residual norm is below 1e-10 (e.g. an initial guess that already solves the system): on
            # such branches A x = b holds only to that tolerance, so a real-valued counterexample there is below the replay tolerance
            "on_nonreplay": "inconclusive"}


def describe(tier):
    return {
        "bounds": {"n": "2 (full symbolic L L^T), 3 (diagonal), 1", "columns": [1, 2], "preconditioners": PRECOND, "max_iter": "n (exact termination) / 1 (monotonicity)"},
        "outside": ["the classical kappa bound for j >= 2", "sizes up to 64, condition numbers to 1e6, float32 floors", "NaN clause (reals)",
                    "'converged columns stop changing' beyond the first freeze decision at n = 2"],
        "assumptions": ["generic-case cut inside linear_cg: safe-division / convergence masks on symbolic data are not triggered (recorded per path); "
                        "zero right-hand-side columns are concrete zeros, so their mask is a constant True",
                        "float .item() in linear_cg only formats the warning text (whitelisted)",
                        "masks that compare against a threshold above 1e-6 (stop_updating_after = 0.5 in the `frozen` cells) are forks, not cuts"],
    }


def setup(ctx, p):
    n = p["n"]
    if p.get("diag") == "const":
        # concrete spectrum 1, 2, 4, ..: only the right-hand side is symbolic (keeps the n = 3 identities within reach)
        A = torch.diag_embed(torch.tensor([float(2 ** i) for i in range(n)], dtype=torch.float64))
    elif p.get("diag"):
        d = ctx.leaf("d", (n,), positive=True)
        A = torch.diag_embed(d)
    else:
        L = ctx.leaf("L", (n, n), tril=True, posdiag=True)
        A = L @ L.mT
    pc = p["precond"]
    if pc == "none":
        pre = None
    elif pc == "jacobi":
        dg = torch.diagonal(A)
        pre = lambda z: z / dg.unsqueeze(-1)  # noqa: E731
    elif pc == "exact":
        Ai = torch.linalg.inv(A)
        pre = lambda z: Ai @ z  # noqa: E731
    else:
        s = ctx.leaf("pscale", (), positive=True)
        pre = lambda z: z * s  # noqa: E731
    return A, pre


def harness(ctx):
    p = ctx.params
    n, g = p["n"], p["group"]
    A, pre = setup(ctx, p)
    mm = lambda z: A @ z  # noqa: E731
    kw = {"preconditioner": pre} if pre is not None else {}
    if g == "term":
        b = ctx.leaf("rhs", (n, p["cols"]))
        x0 = ctx.leaf("guess", (n, p["cols"])) if p["guess"] == "given" else None
        if x0 is not None:
            kw["initial_guess"] = x0
        attempt(ctx, g, lambda: ctx.eq(A @ linear_cg(mm, b, max_iter=n, max_tridiag_iter=n, tolerance=1e-30, **kw), b, "A x_n = b (exact termination)"))
        return
    if g == "zero_col":
        b1 = ctx.leaf("rhs", (n, 1))
        b = torch.cat([b1, torch.zeros(n, 1, dtype=torch.float64)], dim=-1)
        def chk():
            x = linear_cg(mm, b, max_iter=n, max_tridiag_iter=n, tolerance=1e-30, **kw)
            ctx.eq(x[:, 1], torch.zeros(n, dtype=torch.float64), "zero column => zero result")
            ctx.eq(A @ x[:, :1], b1, "the other column is still solved")
        attempt(ctx, g, chk)
        return
    if g == "homog":
        b = ctx.leaf("rhs", (n, 1))
        t = ctx.leaf("tscale", (), positive=True)
        def chk():
            x1 = linear_cg(mm, b, max_iter=1, max_tridiag_iter=1, tolerance=1e-30, **kw)
            xt = linear_cg(mm, b * t, max_iter=1, max_tridiag_iter=1, tolerance=1e-30, **kw)
            ctx.eq(xt, x1 * t, "cg(A, t b) = t cg(A, b) after one step")
        attempt(ctx, g, chk)
        return
    if g == "tridiag":
        b = ctx.leaf("rhs", (n, 1))
        def chk():
            x, Tm = linear_cg(mm, b, max_iter=n, max_tridiag_iter=n, n_tridiag=1, tolerance=1e-30, **kw)
            # in exact arithmetic CG converges at iteration n and the loop may stop before the last Lanczos coefficient is stored:
            # the tridiagonal matrix has dimension k <= n (the float run at tolerance 1e-30 never stops early)
            k = Tm.shape[-1]
            Tm = Tm.reshape(k, k)
            ctx.eq(A @ x, b, "A x_n = b (with tridiagonalisation on)")
            ctx.eq(Tm, Tm.mT, "T symmetric")
            if p["precond"] == "none":
                z = b[:, 0] / (b[:, 0] * b[:, 0]).sum().sqrt()
                ctx.eq(Tm[0, 0], (z * (A @ z)).sum(), "T00 = z^T A z")
                if k == n:
                    ctx.eq(Tm[0, 0] + Tm[1, 1], A[0, 0] + A[1, 1], "tr T = tr A")
                    ctx.eq(det_ref(Tm), det_ref(A), "det T = det A")
        attempt(ctx, g, chk)
        return
    if g == "monotone":
        b = ctx.leaf("rhs", (n, 1))
        def chk():
            x1 = linear_cg(mm, b, max_iter=1, max_tridiag_iter=1, tolerance=1e-30, **kw)
            xs = torch.linalg.inv(A) @ b
            e1, e0 = xs - x1, xs
            ctx.true(((e1 * (A @ e1)).sum() <= (e0 * (A @ e0)).sum()).reshape(1), "||x* - x_1||_A <= ||x* - x_0||_A")
        attempt(ctx, g, chk)
        return
    if g == "frozen":
        # "converged columns stop changing": with a sizeable stop_updating_after the freeze decision is a real fork
        b = ctx.leaf("rhs", (n, 1))
        thr = 0.5
        def chk():
            x1 = linear_cg(mm, b, max_iter=1, max_tridiag_iter=0, tolerance=1e-30, stop_updating_after=thr, **kw)
            x2 = linear_cg(mm, b, max_iter=2, max_tridiag_iter=0, tolerance=1e-30, stop_updating_after=thr, **kw)
            bn = (b * b).sum(-2).sqrt()
            r1 = b - A @ x1
            rn = (r1 * r1).sum(-2).sqrt() / bn
            for j in range(1):
                if bool(rn[j] < thr):
                    ctx.eq(x2[:, j], x1[:, j], f"column {j} frozen after iteration 1 (relative residual < stop_updating_after) does not change")
                else:
                    ctx.eq(A @ x2[:, j], b[:, j], f"column {j} not frozen: solved at iteration n")
        attempt(ctx, g, chk)
        return
    if g == "tridiag_breakdown":
        # one column whose Lanczos recurrence breaks down at once (an eigenvector of A) next to a generic column: the generic
        # column must still receive its full tridiagonal matrix
        bg = ctx.leaf("rhs", (n, 1))
        e0 = torch.zeros(n, 1, dtype=torch.float64)
        e0[0, 0] = 1.0
        for order, b in (("eig,generic", torch.cat([e0, bg], -1)), ("generic,eig", torch.cat([bg, e0], -1))):
            jg = 1 if order == "eig,generic" else 0
            def chk(b=b, jg=jg, order=order):
                # max_iter = n + 1: in R the loop would otherwise stop (residual identically 0) before the last Lanczos
                # coefficient is stored, while the float run at tolerance 1e-30 would not
                x, Tm = linear_cg(mm, b, max_iter=n + 1, max_tridiag_iter=n, n_tridiag=2, tolerance=1e-30, **kw)
                if n == 2:
                    ctx.eq(A @ x, b, f"A x_n = b ({order})")
                k = Tm.shape[-1]
                if tuple(Tm.shape) != (2, k, k):
                    ctx.fail("tridiag shape", f"{tuple(Tm.shape)}")
                    return
                Tg = Tm[jg]
                z = bg[:, 0] / (bg[:, 0] * bg[:, 0]).sum().sqrt()
                ctx.eq(Tg[0, 0], (z * (A @ z)).sum(), f"generic column: T00 = z^T A z ({order})")
                if k < n:
                    ctx.fail(f"generic column: tridiagonal dimension ({order})", f"T is {k}x{k} although the generic column's Krylov space has dimension {n}")
                    return
                ctx.eq(torch.diagonal(Tg).sum(), torch.diagonal(A).sum(), f"generic column: tr T = tr A ({order})")
                ctx.eq(det_ref(Tg), det_ref(A), f"generic column: det T = det A ({order})")
                ctx.eq(Tm[1 - jg][0, 0], A[0, 0], f"eigenvector column: T00 = its eigenvalue ({order})")
            attempt(ctx, g + ":" + order, chk)
        return
    if g == "limits":
        b = ctx.leaf("rhs", (n, 1))
        try:
            linear_cg(mm, b, max_iter=1, max_tridiag_iter=2, n_tridiag=1)
            ctx.fail("max_tridiag_iter > max_iter", "did not raise")
        except RuntimeError:
            pass
        ctx.eq(b, b, "noop")
        return
    raise ValueError(g)
