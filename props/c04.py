"""C04 — solve returns A^{-1} B whichever algorithm the library selects."""
from __future__ import annotations

import contextlib

import torch

import linear_operator
from catalog.builders import BUILDERS
from linear_operator import settings
from props.common import SIGNALS, attempt, explicit_unsupported
from props.linalg_oracles import check_solve, dense

PID = "C04"
CONCLUSIVE_FLOOR = {"quick": 60, "thorough": 150}

PD = [n for n, b in BUILDERS.items() if b.pd]
SMALL = ["DensePD", "Diag", "ConstantDiag", "Identity", "CholLower", "CholUpper", "AddedDiag", "AddedConstDiag", "LowRankRootAddedDiag",
         "PsdSum", "ConstantMulPos", "BatchRepeatPD", "AddedDiag(Kron3?)"]
BIG = ["KroneckerPD", "KroneckerDiag", "KroneckerAddedConstDiag", "KroneckerAddedDiag", "KroneckerAddedKronDiag", "SumKronecker",
       "BlockDiag", "BlockInterleaved"]
CONFIGS = {
    "default": {},
    "chol_exact": {"fast_solves": False},
    "cg": {"max_cholesky_size": 0, "cg": True},
    "cg_precond": {"max_cholesky_size": 0, "cg": True, "min_preconditioning_size": 0, "max_preconditioner_size": 1},
    "cg_precond_full": {"max_cholesky_size": 0, "cg": True, "min_preconditioning_size": 0, "max_preconditioner_size": 2},
    "memory_efficient": {"memory_efficient": True},
}


def cells(tier, seed):
    out = []
    for name in SMALL + BIG:
        for batch in ((), (2,)):
            for cfg in CONFIGS:
                if "cg" in cfg and name in BIG:
                    continue  # 4x4 symbolic CG is out of reach (DESIGN §9); these classes are checked on their direct paths
                if "cg" in cfg and batch:
                    continue
                if tier == "quick" and batch and name not in ("DensePD", "Diag", "AddedDiag", "KroneckerPD", "BlockDiag", "CholLower"):
                    continue
                for g in ("solve", "left") if cfg in ("default", "cg") else ("solve",):
                    out.append({"id": f"{name}/b{'x'.join(map(str, batch)) or '-'}/{cfg}/{g}",
                                "params": {"builder": name, "n": 2, "batch": list(batch), "cfg": cfg, "group": g}})
    for name in ("TriangularLower", "TriangularUpper", "KroneckerTriangular", "KroneckerTriangularUpper", "Triangular(Kron-free dense)T"):
        for batch in ((), (2,)):
            out.append({"id": f"{name}/b{'x'.join(map(str, batch)) or '-'}/default/triangular",
                        "params": {"builder": name, "n": 2, "batch": list(batch), "cfg": "default", "group": "triangular"}})
    for name in ("CholKronLower",):
        for g in ("solve", "left", "chol_of_kron_upper"):
            out.append({"id": f"{name}/b-/default/{g}", "params": {"builder": name, "n": 2, "batch": [], "cfg": "default", "group": g}})
    for name in ("CholLower", "CholUpper"):
        out.append({"id": f"{name}/b-/default/chol_inverse", "params": {"builder": name, "n": 2, "batch": [], "cfg": "default", "group": "chol_inverse"}})
    for name in ("Permutation", "TransposePermutation"):
        out.append({"id": f"{name}/b-/default/perm", "params": {"builder": name, "n": 2, "batch": [], "cfg": "default", "group": "perm"}})
    return out


def explore_opts(params, tier):
    cg = "cg" in params["cfg"]
    return {"timeout_s": 2.0 if tier == "quick" else 15.0, "max_paths": 6, "norm_first": True, "path_budget_s": 90.0,
            "engine_opts": {"cut_sites": ("linear_cg",) if cg else (), "item_whitelist": ("linear_cg",)}}


def describe(tier):
    return {
        "bounds": {"n": 2, "kronecker_and_block_size": 4, "configs": CONFIGS, "rhs_kinds": ["vector", "matrix", "batch-broadcast"],
                   "cg": "max_cg_iterations = n, tolerance ~0: exact termination after n steps in R"},
        "outside": ["tolerance clauses (only exact identities in R are decided)", "CG for 4x4 symbolic operators", "n > 2 for dense symbolic factors",
                    "linalg_dtypes other than metadata"],
        "assumptions": ["float .item() inside linear_cg is whitelisted: it only formats the NumericalWarning text",
                        "generic-case cut inside linear_cg: the safe-division / convergence masks are not triggered (recorded per path)",
                        "Cholesky stub: registered factor or explicit algorithm over leading minors"],
    }


@contextlib.contextmanager
def config(cfg, n):
    c = CONFIGS[cfg]
    with contextlib.ExitStack() as st:
        if "max_cholesky_size" in c:
            st.enter_context(settings.max_cholesky_size(c["max_cholesky_size"]))
        if "fast_solves" in c:
            st.enter_context(settings.fast_computations(solves=c["fast_solves"]))
        if c.get("cg"):
            st.enter_context(settings.max_cg_iterations(n))
            st.enter_context(settings.max_lanczos_quadrature_iterations(n))
            st.enter_context(settings.cg_tolerance(1e-30))
        if "min_preconditioning_size" in c:
            st.enter_context(settings.min_preconditioning_size(c["min_preconditioning_size"]))
        if "max_preconditioner_size" in c:
            st.enter_context(settings.max_preconditioner_size(c["max_preconditioner_size"]))
        if c.get("memory_efficient"):
            st.enter_context(settings.memory_efficient(True))
        yield


def harness(ctx):
    p = ctx.params
    b = BUILDERS[p["builder"]]
    batch = tuple(p["batch"])
    op, ref = b(ctx, p["n"], batch)
    N = ref.shape[-1]
    g = p["group"]
    with config(p["cfg"], N):
        if g == "solve":
            Bm = ctx.leaf("rhsB", (N, 2))
            attempt(ctx, "solve[mat]", lambda: check_solve(ctx, op.solve(Bm), ref, Bm, "solve[mat]"))
            if p["cfg"] in ("cg", "cg_precond") and not batch and p["builder"] in ("DensePD", "Diag", "AddedDiag", "ConstantDiag"):
                # an all-zero column next to a generic one (a padded output): the generic column must still be solved
                Bz = torch.cat([Bm[:, :1], torch.zeros(N, 1, dtype=torch.float64)], dim=-1)
                attempt(ctx, "solve[zero col]", lambda: check_solve(ctx, op.solve(Bz), ref, Bz, "solve[generic column next to a zero column]"))
            if "cg" not in p["cfg"]:
                bv = ctx.leaf("rhsbv", (N,))
                attempt(ctx, "solve[vec]", lambda: check_solve(ctx, op.solve(bv), ref, bv, "solve[vec]"))
                Bb = ctx.leaf("rhsBb", (2,) + tuple(1 for _ in ref.shape[:-2]) + (N, 1))
                attempt(ctx, "solve[bcast]", lambda: check_solve(ctx, op.solve(Bb), ref, Bb, "solve[bcast]"))
                attempt(ctx, "torch.linalg.solve", lambda: check_solve(ctx, torch.linalg.solve(op, Bm), ref, Bm, "torch.linalg.solve"))
                attempt(ctx, "linear_operator.solve", lambda: check_solve(ctx, linear_operator.solve(op, Bm), ref, Bm, "linear_operator.solve"))
            return
        if g == "left":
            Bm = ctx.leaf("rhsB", (N, 1))
            Lf = ctx.leaf("lhsLf", (2, N))

            def chk():
                R = op.solve(Bm, Lf)
                # R = Lf A^{-1} B  <=>  exists Y: A Y = B, R = Lf Y ; checked as  R == Lf @ solve_dense  via  A-multiplication:
                Y = op.solve(Bm)
                ctx.eq(ref @ Y, Bm.expand_as(ref @ Y), "left:A Y = B")
                ctx.eq(R, Lf @ Y, "left:R = L Y")
            attempt(ctx, "solve(left)", chk)
            return
        if g == "triangular":
            Bm = ctx.leaf("rhsB", (N, 2))
            upper = bool(getattr(op, "upper", False))
            attempt(ctx, "tri.solve", lambda: check_solve(ctx, op.solve(Bm), ref, Bm, "triangular.solve"))
            def st():
                try:
                    X = torch.linalg.solve_triangular(op, Bm, upper=upper)
                except NotImplementedError:
                    return  # explicit not-supported
                check_solve(ctx, X, ref, Bm, "torch.linalg.solve_triangular")
            attempt(ctx, "torch.solve_triangular", st)
            attempt(ctx, "tri.inverse", lambda: ctx.eq(dense(op.inverse()) @ ref, torch.eye(N, dtype=torch.float64).expand_as(ref), "triangular.inverse"))

            def cs():
                # _cholesky_solve(rhs, upper): solves (T T^T) X = rhs for a lower T, (T^T T) X = rhs for an upper T
                X = op._cholesky_solve(Bm, upper=upper)
                A = ref.mT @ ref if upper else ref @ ref.mT
                ctx.eq(A @ X, Bm.expand_as(A @ X), "_cholesky_solve")
            attempt(ctx, "_cholesky_solve", cs)
            Lf = ctx.leaf("lhsLf", (1, N))
            attempt(ctx, "tri.solve(left)", lambda: ctx.eq(op.solve(Bm, Lf), Lf @ op.solve(Bm), "triangular.solve(left) = L (T^-1 B)"))
            return
        if g == "chol_of_kron_upper":
            # the same matrix, held through its UPPER Kronecker-structured Cholesky factor
            from linear_operator.operators import CholLinearOperator, KroneckerProductLinearOperator
            Bm = ctx.leaf("rhsB", (N, 2))
            def chk():
                A1 = ctx.leaf("KA", (2, 2), tril=True, posdiag=True)
                B1 = ctx.leaf("KB", (2, 2), tril=True, posdiag=True)
                kp = KroneckerProductLinearOperator(A1 @ A1.mT, B1 @ B1.mT)
                from catalog.builders import kron_ref
                full = kron_ref(A1 @ A1.mT, B1 @ B1.mT)
                ctx.register_chol(A1 @ A1.mT, A1)
                ctx.register_chol(B1 @ B1.mT, B1)
                U = kp.cholesky(upper=True)
                opu = CholLinearOperator(U, upper=True)
                check_solve(ctx, opu.solve(Bm), full, Bm, "Chol(kron.cholesky(upper=True), upper=True).solve")
                ctx.eq(full @ U._cholesky_solve(Bm, upper=True), Bm, "KroneckerTriangular._cholesky_solve(upper=True)")
                Lk = kp.cholesky()
                ctx.eq(full @ Lk._cholesky_solve(Bm, upper=False), Bm, "KroneckerTriangular._cholesky_solve(upper=False)")
            attempt(ctx, g, chk)
            return
        if g == "chol_inverse":
            Bm = ctx.leaf("rhsB", (N, 2))
            I = torch.eye(N, dtype=torch.float64)

            def chk():
                inv = op.inverse()
                ctx.eq(dense(inv) @ ref, I, "Chol.inverse().to_dense() A = I")
                ctx.eq(ref @ (inv @ Bm), Bm, "A (Chol.inverse() @ B) = B")
                ctx.eq(inv.solve(Bm), ref @ Bm, "Chol.inverse().solve(B) = A B")
            attempt(ctx, "chol_inverse", chk)
            return
        if g == "perm":
            # permutation matrices are not PD: their own `_solve` (= inverse @ rhs) is the entry point the library uses
            r64 = ref.to(torch.float64)
            B64 = ctx.leaf("rhsB64", (N, 2))
            attempt(ctx, "perm._solve", lambda: ctx.eq(r64 @ op._solve(B64.to(op.dtype)).to(torch.float64), B64, "permutation._solve:P X = B"))
            attempt(ctx, "perm.inverse", lambda: ctx.eq(dense(op.inverse()).to(torch.float64) @ r64, torch.eye(N, dtype=torch.float64), "permutation.inverse"))
            return
    raise ValueError(g)
