"""C02 — composition and structure-preserving rewrites never change the matrix."""
from __future__ import annotations

import torch

import linear_operator
from catalog.builders import BUILDERS
from linear_operator import settings
from props.common import SIGNALS, explicit_unsupported

PID = "C02"
CONCLUSIVE_FLOOR = {"quick": 200, "thorough": 500}

CORE = ["Dense", "DensePD", "Diag", "ConstantDiag", "Identity", "Zero", "Toeplitz", "TriangularLower", "CholLower", "Root",
        "LowRankRoot", "AddedDiag", "LowRankRootAddedDiag", "Sum", "PsdSum", "Matmul", "Mul", "ConstantMul", "SumBatch",
        "Masked", "Interpolated", "Kernel", "UserMinimal", "BatchRepeat"]
BIG = ["Kronecker", "KroneckerPD", "KroneckerDiag", "KroneckerTriangular", "KroneckerAddedConstDiag", "KroneckerAddedDiag",
       "SumKronecker", "BlockDiag", "BlockInterleaved", "Kron(Toeplitz,Diag)", "Sum(Kron,ConstantMul)", "ConstantMul(BlockInterleaved)"]
PSD_FOR_ROOT_OPS = ["DensePD", "Diag", "ConstantDiag", "Identity", "CholLower", "Root", "LowRankRoot", "AddedDiag", "LowRankRootAddedDiag",
                    "PsdSum", "ConstantMulPos", "KroneckerPD", "BlockDiag", "AddedConstDiag"]

BINOPS = ["add", "sub", "matmul"]
UNARY = ["scalars", "diag_ops", "shape_ops", "batch_reduce", "cat", "low_rank", "elementwise_tensor"]
PROGRAMS = ["p_add_add_jitter", "p_mul_add_matmul", "p_sub_neg_add", "p_scale_sum_transpose", "p_cat_getitem", "p_expand_add", "p_diag_chain"]


def _cid(*parts):
    return "/".join(str(x) for x in parts)


def cells(tier, seed):
    out = []
    shapes = [((), ())] if tier == "quick" else [((), ()), ((2,), (2,)), ((2,), ()), ((), (2,)), ((2, 1), (1, 2))]
    for fam, n in ((CORE, 2), (BIG, 2)):
        for a in fam:
            for b in fam:
                for ba, bb in shapes:
                    if tier == "quick" and fam is BIG and (a, b) not in [(x, y) for x in BIG[:7] for y in BIG[:7]] and a != b:
                        continue
                    out.append({"id": _cid("pair", a, b, f"b{'x'.join(map(str, ba)) or '-'}_{'x'.join(map(str, bb)) or '-'}"),
                                "params": {"group": "pair", "a": a, "b": b, "n": n, "ba": list(ba), "bb": list(bb)}})
    names = list(BUILDERS) if tier != "quick" else CORE + BIG + ["CatRows", "CatCols", "DenseRect", "KroneckerRect", "CholUpper"]
    for a in names:
        for batch in ([(), (2,)] if tier == "quick" else [(), (2,), (1,), (2, 2)]):
            if "nested" in BUILDERS[a].tags and len(batch) > 1:
                continue
            if "eig" in BUILDERS[a].tags and batch:
                continue
            if "fixedbatch" in BUILDERS[a].tags and batch:
                continue
            if a in ("BlockDiagDim", "TransposePermutation") and batch:
                continue
            for g in UNARY:
                out.append({"id": _cid("unary", a, f"b{'x'.join(map(str, batch)) or '-'}", g),
                            "params": {"group": g, "a": a, "n": 2, "batch": list(batch)}})
    for a in ("Toeplitz", "Root", "Kronecker", "ConstantMul", "Matmul", "Sum", "Diag", "Dense", "Interpolated", "BlockDiag", "KroneckerDiag"):
        out.append({"id": _cid("unary", a, "b2x2", "scalars2"), "params": {"group": "scalars2", "a": a, "n": 2, "batch": [2, 2]}})
        out.append({"id": _cid("unary", a, "b2x2x2", "batch_reduce3"), "params": {"group": "batch_reduce3", "a": a, "n": 2, "batch": [2, 2, 2]}})
    for a in PSD_FOR_ROOT_OPS:
        for b in PSD_FOR_ROOT_OPS:
            if tier == "quick" and not (a in PSD_FOR_ROOT_OPS[:8] and b in PSD_FOR_ROOT_OPS[:8]):
                continue
            if ("Kronecker" in a or "Block" in a) != ("Kronecker" in b or "Block" in b):
                continue
            out.append({"id": _cid("psdmul", a, b), "params": {"group": "psdmul", "a": a, "b": b, "n": 2, "batch": []}})
    for pg in PROGRAMS:
        for a in (CORE if tier != "quick" else CORE[:12]):
            out.append({"id": _cid("prog", pg, a), "params": {"group": "program", "prog": pg, "a": a, "n": 2, "batch": []}})
    return out


def explore_opts(params, tier):
    return {"timeout_s": 1.0 if tier == "quick" else 30.0, "max_paths": 6, "norm_first": params["group"] in ("psdmul", "low_rank"),
            "engine_opts": {"cut_sites": ("make_sparse_from_indices_and_values",)}}


def describe(tier):
    return {
        "bounds": {"n": 2, "program_depth": "<= 3", "pairs": f"{len(CORE)}^2 core + Kronecker/block family pairs, both operand orders",
                   "ops": BINOPS + UNARY + ["psd elementwise mul"] + PROGRAMS, "batch_pairs": "()x() quick; + (2,)x(2,), (2,)x(), ()x(2,), (2,1)x(1,2) thorough"},
        "outside": ["programs deeper than 3", "n > 2", "Lanczos-based root decompositions (max_cholesky_size left at its default, so roots are Cholesky)"],
        "assumptions": ["an operation may raise only an explicit not-supported error (NotImplementedError, or a RuntimeError/ValueError raised "
                        "inside linear_operator whose message says so); everything else where dense torch succeeds is a violation"],
    }


def _try(ctx, label, f_op, f_dense):
    try:
        expect = f_dense()
    except (RuntimeError, IndexError, TypeError):
        return  # dense torch refuses the operation: nothing to compare (C19)
    try:
        res = f_op()
        ctx.eq(res, expect, label)
    except SIGNALS:
        raise
    except Exception as e:  # noqa: BLE001
        if not explicit_unsupported(e):
            ctx.fail(label + ":raises", f"{type(e).__name__}: {str(e)[:160]}")


def harness(ctx):
    p = ctx.params
    g = p["group"]
    if g == "pair":
        A, ra = BUILDERS[p["a"]](ctx, p["n"], tuple(p["ba"]), p="a_")
        B, rb = BUILDERS[p["b"]](ctx, p["n"], tuple(p["bb"]), p="b_")
        _try(ctx, "A+B", lambda: A + B, lambda: ra + rb)
        _try(ctx, "A-B", lambda: A - B, lambda: ra - rb)
        _try(ctx, "A@B", lambda: A @ B, lambda: ra @ rb)
        _try(ctx, "A+B.dense", lambda: A + rb, lambda: ra + rb)
        _try(ctx, "A.dense+B", lambda: ra + B, lambda: ra + rb)
        _try(ctx, "A@B.dense", lambda: A @ rb, lambda: ra @ rb)
        _try(ctx, "A.dense@B", lambda: ra @ B, lambda: ra @ rb)
        _try(ctx, "A*B.dense", lambda: A * rb, lambda: ra * rb)
        return
    batch = tuple(p.get("batch", ()))
    A, ra = BUILDERS[p["a"]](ctx, p["n"], batch, p="a_")
    m, n = ra.shape[-2:]
    sq = m == n
    if g == "psdmul":
        B, rb = BUILDERS[p["b"]](ctx, p["n"], batch, p="b_")
        _try(ctx, "A*B", lambda: A * B, lambda: ra * rb)
        _try(ctx, "B*A", lambda: B * A, lambda: rb * ra)
        return
    if g == "scalars":
        c0 = ctx.leaf("argc0", ())
        for tag, c in (("2.5", 2.5), ("-1.5", -1.5), ("0.0", 0.0), ("0d", c0)):
            _try(ctx, f"A*{tag}", lambda c=c: A * c, lambda c=c: ra * c)
            _try(ctx, f"{tag}*A", lambda c=c: c * A, lambda c=c: c * ra)
        _try(ctx, "A/2.0", lambda: A / 2.0, lambda: ra / 2.0)
        _try(ctx, "A/0d", lambda: A / c0, lambda: ra / c0)
        if batch:
            cb = ctx.leaf("argcb", batch)
            _try(ctx, "A*batchconst", lambda: A * cb[..., None, None], lambda: ra * cb[..., None, None])
            neg = torch.tensor([-2.0, 0.0], dtype=torch.float64)[: batch[0]].reshape(batch[0], *([1] * (len(batch) - 1)), 1, 1)
            _try(ctx, "A*batch[-2,0]", lambda: A * neg, lambda: ra * neg)
            _try(ctx, "A/batchconst", lambda: A / cb[..., None, None], lambda: ra / cb[..., None, None])
        return
    if g == "scalars2":
        # batches of constants against a two-dimensional batch: every singleton placement
        for tag, shp in (("(2,1,1,1)", (2, 1, 1, 1)), ("(1,2,1,1)", (1, 2, 1, 1)), ("(2,2,1,1)", (2, 2, 1, 1)), ("(2,1,1)", (2, 1, 1))):
            c = ctx.leaf("argc" + tag.replace(",", "").replace("(", "").replace(")", ""), shp)
            _try(ctx, f"A*const{tag}", lambda c=c: A * c, lambda c=c: ra * c)
            _try(ctx, f"const{tag}*A", lambda c=c: c * A, lambda c=c: c * ra)
            _try(ctx, f"A/const{tag}", lambda c=c: A / c, lambda c=c: ra / c)
        return
    if g == "batch_reduce3":
        for dim in (0, 1, 2, -3, -4):
            _try(ctx, f"sum({dim})", lambda dim=dim: A.sum(dim), lambda dim=dim: ra.sum(dim))
        _try(ctx, "sum(0).sum(0)", lambda: A.sum(0).sum(0), lambda: ra.sum(0).sum(0))
        return
    if g == "diag_ops":
        if not sq:
            return
        d = ctx.leaf("argdd", (n,))
        c1 = ctx.leaf("argc1", (1,))
        I = torch.eye(n, dtype=torch.float64)
        _try(ctx, "add_diagonal(vec)", lambda: A.add_diagonal(d), lambda: ra + torch.diag_embed(d))
        _try(ctx, "add_diagonal(1-elt)", lambda: A.add_diagonal(c1), lambda: ra + I * c1)
        _try(ctx, "add_diagonal(0d)", lambda: A.add_diagonal(c1[0]), lambda: ra + I * c1[0])
        _try(ctx, "add_jitter(0.5)", lambda: A.add_jitter(0.5), lambda: ra + I * 0.5)
        if A.dtype == torch.float64:  # the default jitter 1e-3 is rounded to the operator's dtype
            _try(ctx, "add_jitter()", lambda: A.add_jitter(), lambda: ra + I * 1e-3)
        if batch:
            db = ctx.leaf("argdb", batch + (n,))
            _try(ctx, "add_diagonal(batched)", lambda: A.add_diagonal(db), lambda: ra + torch.diag_embed(db))
        _try(ctx, "A+Diag", lambda: A + linear_operator.operators.DiagLinearOperator(d), lambda: ra + torch.diag_embed(d))
        _try(ctx, "Diag+A", lambda: linear_operator.operators.DiagLinearOperator(d) + A, lambda: ra + torch.diag_embed(d))
        return
    if g == "shape_ops":
        nb = ra.dim() - 2
        _try(ctx, "transpose(-1,-2)", lambda: A.transpose(-1, -2), lambda: ra.transpose(-1, -2))
        _try(ctx, "mT.mT", lambda: A.mT.mT, lambda: ra)
        _try(ctx, "unsqueeze(0)", lambda: A.unsqueeze(0), lambda: ra.unsqueeze(0))
        _try(ctx, "unsqueeze(0).squeeze(0)", lambda: A.unsqueeze(0).squeeze(0), lambda: ra)
        _try(ctx, "expand(3,..)", lambda: A.expand(3, *ra.shape), lambda: ra.expand(3, *ra.shape))
        _try(ctx, "repeat(2,1,1)", lambda: A.repeat(2, *([1] * ra.dim())), lambda: ra.repeat(2, *([1] * ra.dim())))
        _try(ctx, "repeat(..,2,2)", lambda: A.repeat(*([1] * nb), 2, 2), lambda: ra.repeat(*([1] * nb), 2, 2))
        if nb >= 1:
            _try(ctx, "unsqueeze(1)", lambda: A.unsqueeze(1), lambda: ra.unsqueeze(1))
            _try(ctx, "transpose(0,-1)?batch", lambda: A.unsqueeze(0).transpose(0, 1), lambda: ra.unsqueeze(0).transpose(0, 1))
            perm = tuple(reversed(range(nb))) + (nb, nb + 1)
            _try(ctx, "permute(batch)", lambda: A.unsqueeze(0).permute(*(tuple(reversed(range(nb + 1))) + (nb + 1, nb + 2))),
                 lambda: ra.unsqueeze(0).permute(*(tuple(reversed(range(nb + 1))) + (nb + 1, nb + 2))))
            _try(ctx, "expand(batch-broadcast)", lambda: A[..., :1, :, :].expand(*ra.shape) if False else A.expand(*ra.shape), lambda: ra.expand(*ra.shape))
        return
    if g == "batch_reduce":
        if ra.dim() < 3:
            return
        _try(ctx, "sum(0)", lambda: A.sum(0), lambda: ra.sum(0))
        _try(ctx, "sum(-3)", lambda: A.sum(-3), lambda: ra.sum(-3))
        _try(ctx, "sum(-1)", lambda: A.sum(-1), lambda: ra.sum(-1))
        _try(ctx, "sum(-2)", lambda: A.sum(-2), lambda: ra.sum(-2))
        if BUILDERS[p["a"]].pd and sq:
            _try(ctx, "prod(0)", lambda: A.prod(0), lambda: ra.prod(0))
        return
    if g == "cat":
        from linear_operator.operators import CatLinearOperator, cat

        B2, rb2 = BUILDERS[p["a"]](ctx, p["n"], batch, p="c_")
        _try(ctx, "cat(-1)", lambda: cat([A, B2], dim=-1), lambda: torch.cat([ra, rb2], dim=-1))
        _try(ctx, "cat(-2)", lambda: cat([A, B2], dim=-2), lambda: torch.cat([ra, rb2], dim=-2))
        _try(ctx, "cat(0).unsqueezed", lambda: cat([A.unsqueeze(0), B2.unsqueeze(0)], dim=0), lambda: torch.cat([ra.unsqueeze(0), rb2.unsqueeze(0)], dim=0))
        _try(ctx, "cat(-1)@X", lambda: cat([A, B2], dim=-1) @ torch.ones(2 * n, 1, dtype=torch.float64), lambda: torch.cat([ra, rb2], dim=-1).sum(-1, keepdim=True))
        return
    if g == "low_rank":
        if not (BUILDERS[p["a"]].pd and sq):
            return
        V = ctx.leaf("argV", batch + (n, 1))
        _try(ctx, "add_low_rank", lambda: A.add_low_rank(V), lambda: ra + V @ V.mT)
        Bc = ctx.leaf("argBc", batch + (n, 1))
        Dl = ctx.leaf("argDl", batch + (1, 1), tril=True, posdiag=True)
        D = Dl @ Dl.mT + (Bc.mT @ torch.linalg.solve(ra, Bc)) if False else None
        return
    if g == "elementwise_tensor":
        Tn = ctx.leaf("argT", tuple(ra.shape))
        _try(ctx, "A*T", lambda: A * Tn, lambda: ra * Tn)
        _try(ctx, "T*A", lambda: Tn * A, lambda: Tn * ra)
        _try(ctx, "A+T", lambda: A + Tn, lambda: ra + Tn)
        _try(ctx, "T-A", lambda: Tn - A, lambda: Tn - ra)
        _try(ctx, "A-T", lambda: A - Tn, lambda: ra - Tn)
        return
    if g == "program":
        from linear_operator.operators import DiagLinearOperator, cat

        pg = p["prog"]
        if not sq:
            return
        B, rb = BUILDERS["Toeplitz"](ctx, n, batch, p="b_")
        C, rc = BUILDERS["Diag"](ctx, n, batch, p="c_")
        I = torch.eye(n, dtype=torch.float64)
        X = ctx.leaf("argX", (n, 2))
        if pg == "p_add_add_jitter":
            _try(ctx, pg, lambda: ((A + B) + C).add_jitter(0.25), lambda: ra + rb + rc + 0.25 * I)
        elif pg == "p_mul_add_matmul":
            _try(ctx, pg, lambda: ((A * 2.0) + B) @ X, lambda: (ra * 2.0 + rb) @ X)
        elif pg == "p_sub_neg_add":
            _try(ctx, pg, lambda: (B - (A - B)) + C, lambda: (rb - (ra - rb)) + rc)
        elif pg == "p_scale_sum_transpose":
            _try(ctx, pg, lambda: ((A * -1.5) + B.mT).mT, lambda: ((ra * -1.5) + rb.mT).mT)
        elif pg == "p_cat_getitem":
            _try(ctx, pg, lambda: cat([A, B], dim=-1)[..., :, 1:n + 1], lambda: torch.cat([ra, rb], dim=-1)[..., :, 1:n + 1])
        elif pg == "p_expand_add":
            _try(ctx, pg, lambda: A.expand(2, n, n) + B.unsqueeze(0), lambda: ra.expand(2, n, n) + rb.unsqueeze(0))
        elif pg == "p_diag_chain":
            d = ctx.leaf("argdd", (n,))
            _try(ctx, pg, lambda: (A.add_diagonal(d) + C).add_jitter(0.5) @ X, lambda: (ra + torch.diag_embed(d) + rc + 0.5 * I) @ X)
        return
    raise ValueError(g)
