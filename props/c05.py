"""C05 — logdet and inverse quadratic forms equal the dense values or their quadrature."""
from __future__ import annotations

import torch

from catalog.builders import BUILDERS
from linear_operator import settings
from props.common import SIGNALS, attempt
from props.linalg_oracles import det_ref, logdet_ref

PID = "C05"
CONCLUSIVE_FLOOR = {"quick": 60, "thorough": 150}

SMALL = ["DensePD", "Diag", "ConstantDiag", "Identity", "CholLower", "CholUpper", "AddedDiag", "AddedConstDiag", "LowRankRootAddedDiag",
         "PsdSum", "ConstantMulPos", "BatchRepeatPD", "DenseEig", "BatchRepeatPD2"]
BIG = ["KroneckerPD", "KroneckerDiag", "KroneckerAddedConstDiag", "KroneckerAddedDiag", "KroneckerAddedKronDiag", "SumKronecker", "BlockDiag",
       "BlockInterleaved", "KroneckerEig", "KroneckerAddedConstDiagEig", "KroneckerAddedKronDiagEig"]
HEAVY_INV = {"KroneckerAddedConstDiag", "KroneckerAddedDiag", "KroneckerAddedKronDiag", "SumKronecker"}  # 4x4 explicit Cholesky vs cofactor inverse
GROUPS = ["logdet", "inv_quad", "inv_quad_logdet"]


def cells(tier, seed):
    out = []
    for name in SMALL + BIG:
        for batch in ((), (2,)):
            if ("eig" in BUILDERS[name].tags or "fixedbatch" in BUILDERS[name].tags) and batch:
                continue
            if tier == "quick" and batch and name not in ("DensePD", "Diag", "AddedDiag", "KroneckerPD", "BlockDiag", "CholLower"):
                continue
            for g in GROUPS:
                if tier == "quick" and name in HEAVY_INV and g != "logdet":
                    continue
                # kron_iter (max_cholesky_size below N) selects the eigen-structured logdet branches; with it inv_quad goes
                # through tolerance-limited CG on a 4x4 operator, which has no exact identity to check
                for mcs in ("default",) + (("kron_iter",) if name.startswith("KroneckerAdded") and g == "logdet" else ()):
                    out.append({"id": f"{name}/b{'x'.join(map(str, batch)) or '-'}/{mcs}/{g}",
                                "params": {"builder": name, "n": 2, "batch": list(batch), "group": g, "mcs": mcs}})
    return out


def explore_opts(params, tier):
    st = params["group"] == "stochastic"
    return {"timeout_s": 2.0 if tier == "quick" else 15.0, "max_paths": 6, "norm_first": True, "path_budget_s": 90.0,
            "engine_opts": {"cut_sites": ("linear_cg", "lanczos_tridiag_to_diag") if st else (), "item_whitelist": ("linear_cg",),
                            "floor_cut": True}}


def describe(tier):
    return {
        "bounds": {"n": 2, "kronecker/block size": 4, "groups": GROUPS, "rhs": ["vector", "matrix", "none"], "reduce_inv_quad": [True, False]},
        "outside": ["probe variance of the stochastic estimator", "n > 2 for dense symbolic factors", "tolerances"],
        "assumptions": ["log is an uninterpreted function; equalities between log-linear forms are discharged through the product of the "
                        "arguments (sum c_i log a_i = log prod a_i^{c_i}), a sufficient condition",
                        "dense oracle for A^{-1}: cofactor inverse (exact rational functions)",
                        "numerical floors (eigenvalue clamp at 1e-7 in the Kronecker logdet) are assumed not to be hit (counted under generic_case_cuts)"],
    }


def harness(ctx):
    p = ctx.params
    b = BUILDERS[p["builder"]]
    batch = tuple(p["batch"])
    op, ref = b(ctx, p["n"], batch)
    N = ref.shape[-1]
    g = p["group"]
    import contextlib
    cm = settings.max_cholesky_size(3) if p["mcs"] == "kron_iter" else contextlib.nullcontext()  # forces the eigen-structured branches (N = 4 > 3)
    with cm:
        if g == "logdet":
            want = logdet_ref(ctx, ref)
            attempt(ctx, "logdet", lambda: ctx.eq(op.logdet(), want, "logdet()"))
            attempt(ctx, "torch.logdet", lambda: ctx.eq(torch.logdet(op), want, "torch.logdet"))
            return
        Rm = ctx.leaf("rhsR", tuple(ref.shape[:-2]) + (N, 2))
        Ainv = torch.linalg.inv(ref)
        if g == "inv_quad":
            Y = Ainv @ Rm
            attempt(ctx, "inv_quad", lambda: ctx.eq(op.inv_quad(Rm), (Rm * Y).sum((-1, -2)), "inv_quad(reduce)"))
            attempt(ctx, "inv_quad(no-reduce)", lambda: ctx.eq(op.inv_quad(Rm, reduce_inv_quad=False), (Rm * Y).sum(-2), "inv_quad(reduce=False)"))
            if ref.dim() == 2:
                rv = ctx.leaf("rhsr", (N,))
                attempt(ctx, "inv_quad[vec]", lambda: ctx.eq(op.inv_quad(rv), (rv * (Ainv @ rv)).sum(-1), "inv_quad[vec]"))
            return
        if g == "inv_quad_logdet":
            Y = Ainv @ Rm
            want_ld = logdet_ref(ctx, ref)

            def chk(reduce):
                iq, ld = op.inv_quad_logdet(Rm, logdet=True, reduce_inv_quad=reduce)
                ctx.eq(iq, (Rm * Y).sum((-1, -2)) if reduce else (Rm * Y).sum(-2), f"inv_quad_logdet.inv_quad(reduce={reduce})")
                ctx.eq(ld, want_ld, f"inv_quad_logdet.logdet(reduce={reduce})")
            attempt(ctx, "iql(True)", lambda: chk(True))
            attempt(ctx, "iql(False)", lambda: chk(False))

            def only_ld():
                iq, ld = op.inv_quad_logdet(None, logdet=True)
                ctx.eq(ld, want_ld, "inv_quad_logdet(None).logdet")
                if iq is not None and iq.numel() != 0:
                    ctx.fail("inv_quad_logdet(None):inv_quad", f"expected empty, got shape {tuple(iq.shape)}")
            attempt(ctx, "iql(None)", only_ld)

            def only_iq():
                iq, ld = op.inv_quad_logdet(Rm, logdet=False)
                ctx.eq(iq, (Rm * Y).sum((-1, -2)), "inv_quad_logdet(logdet=False).inv_quad")
            attempt(ctx, "iql(no-logdet)", only_iq)
            return
        if g == "stochastic":
            # the Gauss-Lanczos estimator for the probes it drew: structure check at n = 2, one probe
            want = logdet_ref(ctx, ref)
            with settings.max_cholesky_size(0), settings.num_trace_samples(1), settings.max_lanczos_quadrature_iterations(N), \
                    settings.max_cg_iterations(N), settings.cg_tolerance(1e-30), settings.min_preconditioning_size(100):
                attempt(ctx, "stochastic-logdet", lambda: ctx.eq(op.logdet(), want, "stochastic logdet at full Krylov dimension"))
            return
    raise ValueError(g)
