"""C16 — psd_safe_cholesky perturbs minimally, per batch member, or fails loudly."""
from __future__ import annotations

import warnings

import torch

from linear_operator import settings
from linear_operator.utils.cholesky import psd_safe_cholesky
from linear_operator.utils.errors import NotPSDError
from linear_operator.utils.warnings import NumericalWarning
from props.common import SIGNALS

PID = "C16"
CONCLUSIVE_FLOOR = {"quick": 20, "thorough": 50}
J = 0.0625  # explicit jitter: a dyadic rational so that jitter * 10**i and the increments are exact in float64


def cells(tier, seed):
    out = []
    for batch in ((), (2,)):
        for upper in (False, True):
            for tries in ((2,) if tier == "quick" else (1, 2, 3)):
                for via in ("explicit", "settings"):
                    if via == "settings" and (batch or upper):
                        continue
                    out.append({"id": f"n2/b{'x'.join(map(str, batch)) or '-'}/upper{int(upper)}/tries{tries}/{via}",
                                "params": {"n": 2, "batch": list(batch), "upper": upper, "tries": tries, "via": via}})
    out.append({"id": "n1/b2/upper0/tries2/explicit", "params": {"n": 1, "batch": [2], "upper": False, "tries": 2, "via": "explicit"}})
    return out


def explore_opts(params, tier):
    return {"timeout_s": 5.0 if tier == "quick" else 20.0, "max_paths": 120 if params["batch"] else 40, "path_budget_s": 60.0, "engine_opts": {}}


def describe(tier):
    return {
        "bounds": {"n": "1, 2", "batch": ["()", "(2,)"], "jitter": J, "max_tries": [2] if tier == "quick" else [1, 2, 3], "upper": [False, True]},
        "outside": ["NaN / Inf inputs (reals have none)", "n > 2", "float32"],
        "assumptions": ["cholesky_ex stub: explicit algorithm over leading minors, a fork on the sign of each pivot, info = first non-positive pivot, "
                        "factor contents beyond a failed pivot are unconstrained fresh variables",
                        "positive-definiteness of a 2x2 member is its leading-minor criterion"],
    }


def pd(A, s):
    """leading-minor criterion for A + s I positive definite (per batch member); n in {1, 2}"""
    a = A[..., 0, 0] + s
    if A.shape[-1] == 1:
        return a > 0
    c = A[..., 1, 1] + s
    b = A[..., 1, 0]
    return (a > 0) & (a * c - b * b > 0)


def harness(ctx):
    p = ctx.params
    n, batch, upper, tries = p["n"], tuple(p["batch"]), p["upper"], p["tries"]
    Lw = ctx.leaf("Asym", batch + (n, n), tril=True)
    A = Lw + torch.tril(Lw, -1).mT  # every symmetric matrix, one variable per independent entry
    kw = {"upper": upper}
    caught = None
    with warnings.catch_warnings(record=True) as rec:
        warnings.simplefilter("always")
        try:
            if p["via"] == "explicit":
                F = psd_safe_cholesky(A, jitter=J, max_tries=tries, **kw)
            else:
                with settings.cholesky_jitter(double_value=J), settings.cholesky_max_tries(tries):
                    F = psd_safe_cholesky(A, **kw)
        except NotPSDError as e:
            caught = e
    warned = any(issubclass(w.category, NumericalWarning) for w in rec)
    ctx.assert_no_mutation("psd_safe_cholesky")
    last = J * 10 ** (tries - 1)
    if caught is not None:
        # every try failed: some member is still not PD at the largest jitter
        ctx.true(~pd(A, last).all(), "NotPSDError only if a member is not PD at jitter*10^(max_tries-1)")
        if not warned:
            ctx.fail("warning", "NotPSDError without a NumericalWarning for the retries")
        return
    if tuple(F.shape) != tuple(A.shape):
        ctx.fail("shape", f"{tuple(F.shape)}")
        return
    Z = torch.zeros_like(A)
    if upper:
        ctx.eq(torch.tril(F, -1), Z, "upper=True: factor is upper triangular")
        G = F.mT @ F
    else:
        ctx.eq(torch.triu(F, 1), Z, "factor is lower triangular")
        G = F @ F.mT
    D = G - A
    if n == 2:
        ctx.eq(D[..., 1, 0], Z[..., 1, 0], "F F^T - A is diagonal")
        ctx.eq(D[..., 0, 0], D[..., 1, 1], "the same amount is added to every diagonal entry of a member")
    delta = D[..., 0, 0]
    levels = [0.0] + [J * 10 ** i for i in range(tries)]
    ok = ctx.same(delta, levels[0])
    for v in levels[1:]:
        ok = ok | ctx.same(delta, v)
    ctx.true(ok, "perturbation is 0 or jitter*10^i with i < max_tries")
    # exactness and minimality, per member
    ctx.true(~pd(A, 0.0) | ctx.same(delta, 0.0), "a PD member is factorised exactly (no jitter)")
    for i in range(tries):
        prev = 0.0 if i == 0 else J * 10 ** (i - 1)
        ctx.true(~ctx.same(delta, J * 10 ** i) | ~pd(A, prev), f"jitter*10^{i} is used only if the member is not PD at the previous level")
    # warning iff a retry happened (read off the witness of this path: the set of retried members is fixed on a path)
    retried = bool((ctx.shadow(delta).abs() > J / 2).any())
    if retried != warned:
        ctx.fail("warning", f"retry happened: {retried}, NumericalWarning emitted: {warned}")
