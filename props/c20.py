"""C20 — utility kernels equal their dense definitions."""
from __future__ import annotations

import itertools

import torch

from catalog.builders import interp_matrix, toeplitz_ref
from linear_operator.utils import interpolation, permutation, sparse, toeplitz
from linear_operator.utils.pinverse import stable_pinverse
from linear_operator.utils.qr import stable_qr
from props.common import SIGNALS, attempt

PID = "C20"
CONCLUSIVE_FLOOR = {"quick": 60, "thorough": 150}


def cells(tier, seed):
    out = []
    ns = [1, 2, 3] if tier == "quick" else [1, 2, 3, 4]
    batches = [(), (2,)] if tier == "quick" else [(), (2,), (2, 1), (1, 2)]
    for n in ns:
        for b in batches:
            for g in ("toeplitz_build", "toeplitz_matmul", "sym_toeplitz_matmul", "toeplitz_deriv"):
                if g == "toeplitz_build" and b:
                    continue
                out.append({"id": f"{g}/n{n}/b{'x'.join(map(str, b)) or '-'}", "params": {"group": g, "n": n, "batch": list(b)}})
    for n in ([2, 3] if tier == "quick" else [1, 2, 3, 4]):
        for b in batches:
            for g in ("left_interp", "left_t_interp", "make_sparse", "bdsmm", "dsmm_grad"):
                out.append({"id": f"{g}/n{n}/b{'x'.join(map(str, b)) or '-'}", "params": {"group": g, "n": n, "batch": list(b)}})
    for g in ("make_sparse_zeros", "sparse_eye", "sparse_getitem", "sparse_repeat", "to_sparse"):
        for n in (2, 3):
            out.append({"id": f"{g}/n{n}", "params": {"group": g, "n": n, "batch": []}})
    for n in (2, 3):
        for b in batches[:2]:
            for g in ("apply_permutation", "inverse_permutation"):
                out.append({"id": f"{g}/n{n}/b{'x'.join(map(str, b)) or '-'}", "params": {"group": g, "n": n, "batch": list(b)}})
    for shape in ((2, 2), (3, 2), (2, 3), (1, 1), (3, 3)) if tier != "quick" else ((2, 2), (3, 2), (2, 3), (1, 1)):
        for g in ("stable_qr", "stable_pinverse"):
            if g == "stable_qr" and shape[0] < shape[1]:
                continue
            out.append({"id": f"{g}/{shape[0]}x{shape[1]}", "params": {"group": g, "shape": list(shape), "n": shape[0], "batch": []}})
    return out


def explore_opts(params, tier):
    heavy = params["group"] in ("stable_qr", "stable_pinverse")
    return {"timeout_s": 2.0 if tier == "quick" else 60.0, "max_paths": 40 if params["group"].startswith("make_sparse") else 12,
            "norm_first": heavy, "engine_opts": {}}


def describe(tier):
    return {
        "bounds": {"n": "1..3 quick, 1..4 thorough (FFT lengths 1,3,5,7)", "batch": "(), (2,) quick; + (2,1), (1,2) thorough",
                   "interp coefficients per row": 2, "QR shapes": "1x1, 2x2, 3x2, 2x3 (+3x3 thorough)"},
        "outside": ["nearly rank-deficient inputs for QR / pinverse (a floating-point notion): only the exact-rank path and the "
                    "|R_ii| < 1e-6 jitter fork are explored", "n > 4"],
        "assumptions": ["FFT modelled lazily (spectrum = DFT of a stored sequence; products are circular convolutions)",
                        "QR stub: Gram-Schmidt with positive diagonal (LAPACK may differ by column signs; Q R = A either way)",
                        "interpolation indices are symbolic integers (duplicates covered); zero interpolation values explored as forks"],
    }


def _dense_toeplitz(c, r):
    n = c.shape[-1]
    i = torch.arange(n)[:, None] - torch.arange(n)[None, :]
    lower = c[..., i.clamp(min=0)]
    upper = r[..., (-i).clamp(min=0)]
    return torch.where(i >= 0, lower, upper)


def harness(ctx):
    p = ctx.params
    g, n, batch = p["group"], p["n"], tuple(p["batch"])

    if g == "toeplitz_build":
        c = ctx.leaf("c", (n,))
        r_rest = ctx.leaf("r", (max(n - 1, 0),))
        r = torch.cat([c[:1], r_rest])
        attempt(ctx, "toeplitz", lambda: ctx.eq(toeplitz.toeplitz(c, r), _dense_toeplitz(c, r), "toeplitz(c,r)"))
        attempt(ctx, "sym_toeplitz", lambda: ctx.eq(toeplitz.sym_toeplitz(c), toeplitz_ref(c), "sym_toeplitz(c)"))
        D = _dense_toeplitz(c, r)
        S = toeplitz_ref(c)
        for i, j in itertools.product(range(n), range(n)):
            attempt(ctx, "toeplitz_getitem", lambda i=i, j=j: ctx.eq(toeplitz.toeplitz_getitem(c, r, i, j), D[i, j], f"toeplitz_getitem[{i},{j}]"))
            attempt(ctx, "sym_toeplitz_getitem", lambda i=i, j=j: ctx.eq(toeplitz.sym_toeplitz_getitem(c, i, j), S[i, j], f"sym_toeplitz_getitem[{i},{j}]"))
        return

    if g in ("toeplitz_matmul", "sym_toeplitz_matmul"):
        c = ctx.leaf("c", batch + (n,))
        if g == "toeplitz_matmul":
            r_rest = ctx.leaf("r", batch + (max(n - 1, 0),))
            r = torch.cat([c[..., :1], r_rest], dim=-1)
            D = _dense_toeplitz(c, r)
            f = lambda X: toeplitz.toeplitz_matmul(c, r, X)  # noqa: E731
        else:
            D = toeplitz_ref(c)
            f = lambda X: toeplitz.sym_toeplitz_matmul(c, X)  # noqa: E731
        X = ctx.leaf("X", batch + (n, 2))
        attempt(ctx, g + "[mat]", lambda: ctx.eq(f(X), D @ X, g + "[mat]"))
        if not batch:
            v = ctx.leaf("v", (n,))
            # the docstring allows a vector ("Matrix or vector to multiply the Toeplitz matrix with"): T v as a column
            attempt(ctx, g + "[vec]", lambda: ctx.eq(f(v).reshape(-1), D @ v, g + "[vec]"))
            Xb = ctx.leaf("Xb", (2, n, 1))
            attempt(ctx, g + "[bcast]", lambda: ctx.eq(f(Xb), D @ Xb, g + "[batch rhs, unbatched T]"))
        else:
            Xu = ctx.leaf("Xu", (n, 1))
            attempt(ctx, g + "[bcast]", lambda: ctx.eq(f(Xu), D @ Xu, g + "[unbatched rhs, batched T]"))
        return

    if g == "toeplitz_deriv":
        u = ctx.leaf("u", batch + (n, 2))
        v = ctx.leaf("v", batch + (n, 2))
        # d/dc_i  sum_s u_s^T T(c) v_s  =  sum_s sum_{|j-k| = i} u[j,s] v[k,s]
        i = (torch.arange(n)[:, None] - torch.arange(n)[None, :]).abs()
        outer = (u[..., :, None, :] * v[..., None, :, :]).sum(-1)  # ... n n
        expect = torch.stack([(outer * (i == k).to(outer.dtype)).sum((-1, -2)) for k in range(n)], dim=-1)
        attempt(ctx, g, lambda: ctx.eq(toeplitz.sym_toeplitz_derivative_quadratic_form(u, v), expect, "sym_toeplitz_derivative_quadratic_form"))
        if not batch:
            u1, v1 = ctx.leaf("u1", (n,)), ctx.leaf("v1", (n,))
            o1 = u1[:, None] * v1[None, :]
            e1 = torch.stack([(o1 * (i == k).to(o1.dtype)).sum() for k in range(n)])
            attempt(ctx, g + "[vec]", lambda: ctx.eq(toeplitz.sym_toeplitz_derivative_quadratic_form(u1, v1), e1, "sym_toeplitz_derivative_quadratic_form[vec]"))
        return

    m = n + 1  # number of inducing points / rows of the sparse matrix
    if g in ("left_interp", "left_t_interp", "make_sparse", "bdsmm", "dsmm_grad", "make_sparse_zeros"):
        idx = ctx.leaf("idx", batch + (n, 2), kind="int", lo=0, hi=m)
        if g == "make_sparse_zeros":
            val = ctx.leaf("val", batch + (n, 2))  # unconstrained: zero values are explored as forks of `nonzero`
        else:
            val = ctx.leaf("val", batch + (n, 2))
        W = interp_matrix(idx, val, m)  # ... n x m
    if g == "left_interp":
        R = ctx.leaf("R", batch + (m, 2))
        attempt(ctx, g, lambda: ctx.eq(interpolation.left_interp(idx, val, R), W @ R, "left_interp[mat]"))
        if not batch:
            rv = ctx.leaf("rv", (m,))
            attempt(ctx, g + "[vec]", lambda: ctx.eq(interpolation.left_interp(idx, val, rv), W @ rv, "left_interp[vec]"))
            Rb = ctx.leaf("Rb", (2, m, 1))
            attempt(ctx, g + "[bcast]", lambda: ctx.eq(interpolation.left_interp(idx, val, Rb), W @ Rb, "left_interp[batch rhs]"))
        return
    if g == "left_t_interp":
        R = ctx.leaf("R", batch + (n, 2))
        attempt(ctx, g, lambda: ctx.eq(interpolation.left_t_interp(idx, val, R, m), W.mT @ R, "left_t_interp[mat]"))
        if not batch:
            rv = ctx.leaf("rv", (n,))
            attempt(ctx, g + "[vec]", lambda: ctx.eq(interpolation.left_t_interp(idx, val, rv, m), W.mT @ rv, "left_t_interp[vec]"))
            Rb = ctx.leaf("Rb", (2, n, 1))
            attempt(ctx, g + "[bcast]", lambda: ctx.eq(interpolation.left_t_interp(idx, val, Rb, m), W.mT @ Rb, "left_t_interp[batch rhs]"))
        return
    if g in ("make_sparse", "make_sparse_zeros"):
        def chk():
            S = sparse.make_sparse_from_indices_and_values(idx, val, m)
            if tuple(S.shape) != batch + (m, n):
                ctx.fail("make_sparse:shape", f"{tuple(S.shape)}")
            ctx.eq(S.to_dense(), W.mT, "make_sparse_from_indices_and_values.to_dense")
        attempt(ctx, g, chk)
        return
    if g == "bdsmm":
        def chk():
            S = sparse.make_sparse_from_indices_and_values(idx, val, m)  # ... m x n
            D = ctx.leaf("D", batch + (n, 2))
            ctx.eq(sparse.bdsmm(S, D), W.mT @ D, "bdsmm[same batch]")
            if batch:
                Du = ctx.leaf("Du", (n, 1))
                ctx.eq(sparse.bdsmm(S, Du), W.mT @ Du, "bdsmm[unbatched dense]")
            else:
                Db = ctx.leaf("Db", (2, n, 1))
                ctx.eq(sparse.bdsmm(S, Db), W.mT @ Db, "bdsmm[batched dense, 2-d sparse]")
        attempt(ctx, g, chk)
        return
    if g == "dsmm_grad":
        from linear_operator import dsmm

        def chk():
            S = sparse.make_sparse_from_indices_and_values(idx, val, m)
            D = ctx.leaf("D", batch + (n, 2), requires_grad=True)
            G = ctx.leaf("G", batch + (m, 2))
            out = dsmm(S, D)
            ctx.eq(out, W.mT @ D, "dsmm.forward")
            (gD,) = torch.autograd.grad((out * G).sum(), D)
            ctx.eq(gD, W @ G, "dsmm.backward")
        attempt(ctx, g, chk)
        return
    if g == "sparse_eye":
        attempt(ctx, g, lambda: ctx.eq(sparse.sparse_eye(n).to_dense(), torch.eye(n), "sparse_eye"))
        return
    if g in ("sparse_getitem", "sparse_repeat", "to_sparse"):
        A = ctx.leaf("A", (n, n))
        maskA = torch.ones(n, n, dtype=torch.bool)
        maskA[0, -1] = False
        Az = A * maskA  # one structural zero
        ii = maskA.nonzero().t()
        S = torch.sparse_coo_tensor(ii, Az[maskA], (n, n))
        if g == "sparse_getitem":
            # an operand whose first row is empty: the slice [1:] contains every stored entry; the operand must survive the call
            m2 = torch.ones(n, n, dtype=torch.bool)
            m2[0, :] = False
            A2 = A * m2
            S2 = torch.sparse_coo_tensor(m2.nonzero().t(), A2[m2], (n, n))
            def keep():
                r1 = sparse.sparse_getitem(S2, slice(1, None)).to_dense()
                ctx.eq(r1, A2[1:], "sparse_getitem[1:] (slice holding every entry)")
                ctx.eq(S2.to_dense(), A2, "operand unchanged after sparse_getitem[1:]")
                r2 = sparse.sparse_getitem(S2, (slice(None), slice(0, n))).to_dense()
                ctx.eq(r2, A2, "sparse_getitem[:, 0:n] after a previous lookup")
                ctx.eq(sparse.sparse_getitem(S2, n - 1).to_dense(), A2[n - 1], "sparse_getitem[n-1] after previous lookups")
            attempt(ctx, "getitem-operand", keep)
            for k in range(n):
                attempt(ctx, f"getitem[{k}]", lambda k=k: ctx.eq(sparse.sparse_getitem(S, k).to_dense(), Az[k], f"sparse_getitem[{k}]"))
                attempt(ctx, f"getitem[:,{k}]", lambda k=k: ctx.eq(sparse.sparse_getitem(S, (slice(None), k)).to_dense(), Az[:, k], f"sparse_getitem[:,{k}]"))
                attempt(ctx, f"getitem[{k},{k}]", lambda k=k: ctx.eq(sparse.sparse_getitem(S, (k, k)), Az[k, k], f"sparse_getitem[{k},{k}]"))
            attempt(ctx, "getitem[0:1]", lambda: ctx.eq(sparse.sparse_getitem(S, slice(0, 1)).to_dense(), Az[0:1], "sparse_getitem[0:1]"))
            attempt(ctx, "getitem[1:]", lambda: ctx.eq(sparse.sparse_getitem(S, slice(1, None)).to_dense(), Az[1:], "sparse_getitem[1:]"))
            attempt(ctx, "getitem[:,1:]", lambda: ctx.eq(sparse.sparse_getitem(S, (slice(None), slice(1, None))).to_dense(), Az[:, 1:], "sparse_getitem[:,1:]"))
        elif g == "sparse_repeat":
            for reps in ((1, 1), (2, 1), (1, 2), (2, 2), (2, 1, 1), (3, 1)):
                attempt(ctx, f"repeat{reps}", lambda reps=reps: ctx.eq(sparse.sparse_repeat(S, *reps).to_dense(), Az.repeat(*reps), f"sparse_repeat{reps}"))
        else:
            attempt(ctx, "to_sparse", lambda: ctx.eq(sparse.to_sparse(Az).to_dense(), Az, "to_sparse"))
        return

    if g == "apply_permutation":
        K = ctx.leaf("K", batch + (n, n))
        lp = ctx.leaf("lp", batch + (n,), kind="int", lo=0, hi=n, distinct=not batch)
        rp = ctx.leaf("rp", batch + (max(n - 1, 1),), kind="int", lo=0, hi=n)
        bidx = [torch.arange(s).reshape([-1 if i == j else 1 for j in range(len(batch))] + [1, 1]) for i, s in enumerate(batch)]
        expect_full = K[(*bidx, lp.unsqueeze(-1), rp.unsqueeze(-2))]
        attempt(ctx, g, lambda: ctx.eq(permutation.apply_permutation(K, lp, rp), expect_full, "apply_permutation(left,right-partial)"))
        attempt(ctx, g + "[left]", lambda: ctx.eq(permutation.apply_permutation(K, lp, None), K[(*bidx, lp.unsqueeze(-1), torch.arange(n).unsqueeze(-2))], "apply_permutation(left)"))
        attempt(ctx, g + "[right]", lambda: ctx.eq(permutation.apply_permutation(K, None, rp), K[(*bidx, torch.arange(n).unsqueeze(-1), rp.unsqueeze(-2))], "apply_permutation(right)"))
        attempt(ctx, g + "[none]", lambda: ctx.eq(permutation.apply_permutation(K), K, "apply_permutation()"))
        return
    if g == "inverse_permutation":
        perms = list(itertools.permutations(range(n)))
        # permutations fix the scatter pattern: enumerate them (n <= 3) and check inv[p[i]] = i for each
        for pm in perms:
            pt = torch.tensor(pm).expand(*batch, n).contiguous()
            def chk(pt=pt, pm=pm):
                inv = permutation.inverse_permutation(pt)
                ok = bool((torch.gather(inv, -1, pt) == torch.arange(n)).all()) and bool((torch.gather(pt, -1, inv) == torch.arange(n)).all())
                if not ok:
                    ctx.fail(f"inverse_permutation{pm}", f"{inv.tolist()}")
            attempt(ctx, f"inverse_permutation{pm}", chk)
        return

    if g in ("stable_qr", "stable_pinverse"):
        r_, c_ = p["shape"]
        A = ctx.leaf("A", (r_, c_))
        if g == "stable_qr":
            def chk():
                Q, R = stable_qr(A)
                k = min(r_, c_)
                ctx.eq(Q.mT @ Q, torch.eye(k, dtype=torch.float64), "stable_qr:Q^T Q = I")
                ctx.eq(torch.tril(R, -1), torch.zeros_like(R), "stable_qr:R upper")
                d = torch.diagonal(R, dim1=-2, dim2=-1)
                if not bool((d.abs() < 2e-6).any()):  # no jitter was needed on this path
                    ctx.eq(Q @ R, A, "stable_qr:Q R = A")
            attempt(ctx, g, chk)
            if (r_, c_) == (2, 2):
                # exactly rank-deficient input (a zero column): LAPACK returns an exactly zero pivot, which the
                # stabilisation must still move away from zero
                mz = torch.tensor([[True, False], [True, False]])
                Az = ctx.leaf("Az", (2, 2), mask=mz)
                def zc():
                    rr = (Az[0, 0] ** 2 + Az[1, 0] ** 2).sqrt()
                    Qz = torch.stack([torch.stack([Az[0, 0] / rr, -Az[1, 0] / rr]), torch.stack([Az[1, 0] / rr, Az[0, 0] / rr])])
                    Rz = torch.stack([torch.stack([rr, rr * 0]), torch.stack([rr * 0, rr * 0])])
                    ctx.register_qr(Az, Qz, Rz)
                    Q, R = stable_qr(Az)
                    d = torch.diagonal(R, dim1=-2, dim2=-1)
                    ctx.true(d.abs() >= 1e-6 * (1 - 1e-9), "stable_qr:|R_ii| >= 1e-6 after stabilisation (zero column)")
                    ctx.eq(torch.tril(R, -1), torch.zeros_like(R), "stable_qr:R upper (zero column)")
                    ctx.eq(Q.mT @ Q, torch.eye(2, dtype=torch.float64), "stable_qr:Q^T Q = I (zero column)")
                attempt(ctx, g + "/zerocol", zc)
        else:
            def chk():
                # "stabilised": when |R_ii| < 1e-6 a jitter is added and the result is no longer the exact pseudo-inverse;
                # the exact Moore-Penrose identities are asserted on the paths where no jitter is applied
                _, Rh = torch.linalg.qr(A if r_ >= c_ else A.mT)
                if bool((torch.diagonal(Rh, dim1=-2, dim2=-1).abs() < 1e-6).any()):
                    return
                P = stable_pinverse(A)
                if tuple(P.shape) != (c_, r_):
                    ctx.fail("stable_pinverse:shape", f"{tuple(P.shape)}")
                if r_ >= c_:
                    ctx.eq(P @ A, torch.eye(c_, dtype=torch.float64), "stable_pinverse:P A = I (full column rank)")
                    ctx.eq((A @ P).mT, A @ P, "stable_pinverse:(A P)^T = A P")
                else:
                    ctx.eq(A @ P, torch.eye(r_, dtype=torch.float64), "stable_pinverse:A P = I (full row rank)")
                    ctx.eq((P @ A).mT, P @ A, "stable_pinverse:(P A)^T = P A")
            attempt(ctx, g, chk)
        return
    raise ValueError(g)
