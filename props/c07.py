"""C07 — gradients through operators equal gradients through the dense computation."""
from __future__ import annotations

import contextlib

import torch

from catalog.builders import BUILDERS
from linear_operator import settings
from props.common import SIGNALS, attempt

PID = "C07"
CONCLUSIVE_FLOOR = {"quick": 60, "thorough": 150}

DERIV_BUILDERS = ["Dense", "Toeplitz", "Diag", "ConstantDiag", "KroneckerDiag", "Kronecker", "ConstantMul", "Matmul", "Mul", "Sum", "BlockDiag",
                  "BlockInterleaved", "SumBatch", "BatchRepeat", "Masked", "Interpolated", "Root", "LowRankRoot", "AddedDiag", "LowRankRootAddedDiag",
                  "Kernel", "KernelScalarParam", "CatRows", "TriangularLower", "CholLower", "Sum(Kron,ConstantMul)", "Interp(Toeplitz)",
                  "ConstantMul(BlockInterleaved)", "SumBatch(Toeplitz)", "BatchRepeat(Kron)", "Kron(Toeplitz,Diag)", "PsdSum", "DenseRect", "KroneckerRect",
                  "ConstantMulBcast", "ConstantMulBcastLast"]
# operators with several floating parameters: every other parameter frozen (the positional gradient tuple must still line up)
SUBSET_BUILDERS = ["Kronecker", "ConstantMul", "Matmul", "Mul", "Sum", "Interpolated", "AddedDiag", "LowRankRootAddedDiag", "Kernel",
                   "Sum(Kron,ConstantMul)", "Kron(Toeplitz,Diag)", "PsdSum", "KroneckerRect", "BatchRepeat(Kron)", "CatRows", "KroneckerDiag",
                   "Interp(Toeplitz)", "ConstantMul(BlockInterleaved)"]
SUBSET_PD = ["KroneckerPD", "AddedDiag", "LowRankRootAddedDiag", "PsdSum", "ConstantMulPos"]
PD_BUILDERS = ["DensePD", "Diag", "ConstantDiag", "CholLower", "AddedDiag", "LowRankRootAddedDiag", "KroneckerPD", "BlockDiag", "ConstantMulPos",
               "PsdSum"]
ENTRY = ["matmul", "to_dense", "diagonal", "getitem", "sum"]
PD_ENTRY = ["solve", "solve_memeff", "inv_quad", "logdet", "inv_quad_logdet", "solve_left"]


def cells(tier, seed):
    out = []
    for name in DERIV_BUILDERS:
        for batch in ((), (2,)):
            if "nested" in BUILDERS[name].tags and batch:
                continue
            if tier == "quick" and batch and name not in ("Dense", "Toeplitz", "Diag", "Kronecker", "Interpolated", "BlockDiag", "ConstantMul"):
                continue
            out.append({"id": f"bilinear/{name}/b{'x'.join(map(str, batch)) or '-'}", "params": {"group": "bilinear", "builder": name, "n": 2, "batch": list(batch)}})
            for e in ENTRY:
                out.append({"id": f"{e}/{name}/b{'x'.join(map(str, batch)) or '-'}", "params": {"group": e, "builder": name, "n": 2, "batch": list(batch)}})
    for name in PD_BUILDERS:
        for e in PD_ENTRY:
            out.append({"id": f"{e}/{name}/b-", "params": {"group": e, "builder": name, "n": 2, "batch": []}})
    for sub in ("skip_even", "skip_odd"):
        for name in SUBSET_BUILDERS:
            for e in ("bilinear", "matmul", "to_dense"):
                out.append({"id": f"{e}/{name}/b-/{sub}", "params": {"group": e, "builder": name, "n": 2, "batch": [], "subset": sub}})
        for name in SUBSET_PD:
            for e in ("solve", "inv_quad", "logdet"):
                out.append({"id": f"{e}/{name}/b-/{sub}", "params": {"group": e, "builder": name, "n": 2, "batch": [], "subset": sub}})
    return out


def explore_opts(params, tier):
    return {"timeout_s": 2.0 if tier == "quick" else 20.0, "max_paths": 4, "norm_first": True, "path_budget_s": 90.0,
            "engine_opts": {"cut_sites": ("make_sparse_from_indices_and_values",)}}


def describe(tier):
    return {
        "bounds": {"n": 2, "batch": ["()", "(2,)"], "entry points": ENTRY + PD_ENTRY + ["_bilinear_derivative"], "builders": DERIV_BUILDERS + PD_BUILDERS},
        "outside": ["stochastic log-determinant gradients", "sqrt_inv_matmul / pivoted_cholesky gradients", "CG backward (max_cholesky_size left at default: "
                    "Cholesky paths)", "n > 2"],
        "assumptions": ["torch's own autograd formulas for dense ops are trusted (they are themselves mirrored op by op)",
                        "gradients are compared on the free entries of each leaf (structural zeros of triangular factors are not parameters); "
                        "PD operators are parametrised by their Cholesky factor, so perturbations are symmetric by construction"],
    }


def compare_grads(ctx, loss_lib, loss_ref, label):
    items = ctx.grad_leaf_items()
    items = [(n, t) for n, t in items if t.requires_grad]
    if not items:
        return
    if not loss_ref.requires_grad:
        if loss_lib.requires_grad:
            ctx.fail(label + ":requires_grad", "the library's result requires grad although no trainable parameter enters the dense expression")
        return
    if not loss_lib.requires_grad:
        ctx.fail(label + ":requires_grad", "the library's result is detached from the trainable parameters")
        return
    ts = [t for _, t in items]
    g_lib = torch.autograd.grad(loss_lib, ts, allow_unused=True, retain_graph=True)
    g_ref = torch.autograd.grad(loss_ref, ts, allow_unused=True, retain_graph=True)
    for (name, t), a, b in zip(items, g_lib, g_ref):
        if a is None and b is None:
            continue
        a = torch.zeros_like(t) if a is None else a
        b = torch.zeros_like(t) if b is None else b
        m = ctx.free_mask(name, t).to(a.dtype)
        ctx.eq(a * m, b * m, f"{label}:d/d{name}")


def harness(ctx):
    p = ctx.params
    g = p["group"]
    batch = tuple(p["batch"])
    ctx.grad_leaves = True
    ctx.grad_subset = p.get("subset")
    b = BUILDERS[p["builder"]]
    op, ref = b(ctx, p["n"], batch)
    ctx.grad_subset = None  # right-hand sides etc. keep their own flags
    m, n = ref.shape[-2:]
    bs = tuple(ref.shape[:-2])
    if g == "bilinear":
        U = ctx.leaf("argU", bs + (m, 2), requires_grad=False)
        V = ctx.leaf("argV", bs + (n, 2), requires_grad=False)

        def chk():
            args = [a for a in op.representation()]
            derivs = op._bilinear_derivative(U, V)
            if len(derivs) != len(args):
                ctx.fail("bilinear:arity", f"{len(derivs)} derivatives for {len(args)} representation tensors")
                return
            scalar = (U * (ref @ V)).sum()  # the dense matrix the operator denotes (C01), differentiated by torch
            items = [(nm, t) for nm, t in ctx.grad_leaf_items()]
            leaves = [t for _, t in items]
            if not leaves or not scalar.requires_grad:
                return
            # the hand-written derivative is w.r.t. the representation tensors (which may be views / expansions of the caller's
            # leaves): push it back to the leaves with torch's chain rule, compare with AD of the dense expression
            outs, gouts = [], []
            for a, d in zip(args, derivs):
                if torch.is_tensor(a) and a.dtype.is_floating_point and a.requires_grad and d is not None:
                    if tuple(d.shape) != tuple(a.shape):
                        ctx.fail("bilinear:shape", f"derivative shape {tuple(d.shape)} for a representation tensor of shape {tuple(a.shape)}")
                        return
                    outs.append(a)
                    gouts.append(d)
            got = torch.autograd.grad(outs, leaves, grad_outputs=gouts, allow_unused=True, retain_graph=True) if outs else [None] * len(leaves)
            want = torch.autograd.grad(scalar, leaves, allow_unused=True, retain_graph=True)
            for (nm, t), g_, w_ in zip(items, got, want):
                g_ = torch.zeros_like(t) if g_ is None else g_
                w_ = torch.zeros_like(t) if w_ is None else w_
                mk = ctx.free_mask(nm, t).to(g_.dtype)
                ctx.eq(g_ * mk, w_ * mk, f"_bilinear_derivative chained to d/d{nm} == autograd of sum(U * A V)")
        attempt(ctx, "bilinear", chk)
        return
    G_shapes = {"matmul": bs + (m, 2), "to_dense": tuple(ref.shape), "diagonal": bs + (min(m, n),), "getitem": bs + (n,), "sum": bs + (m,)}
    if g in ENTRY:
        if g == "diagonal" and m != n:
            return
        Gt = ctx.leaf("cotG", G_shapes[g], requires_grad=False)
        if g == "matmul":
            X = ctx.leaf("argX", bs + (n, 2))
            attempt(ctx, g, lambda: compare_grads(ctx, (Gt * (op @ X)).sum(), (Gt * (ref @ X)).sum(), "matmul"))
        elif g == "to_dense":
            attempt(ctx, g, lambda: compare_grads(ctx, (Gt * op.to_dense()).sum(), (Gt * ref).sum(), "to_dense"))
        elif g == "diagonal":
            attempt(ctx, g, lambda: compare_grads(ctx, (Gt * op.diagonal()).sum(), (Gt * ref.diagonal(dim1=-2, dim2=-1)).sum(), "diagonal"))
        elif g == "getitem":
            attempt(ctx, g, lambda: compare_grads(ctx, (Gt * op[..., 0, :]).sum(), (Gt * ref[..., 0, :]).sum(), "getitem[...,0,:]"))
        elif g == "sum":
            attempt(ctx, g, lambda: compare_grads(ctx, (Gt * op.sum(-1)).sum(), (Gt * ref.sum(-1)).sum(), "sum(-1)"))
        return
    # PD entry points
    if ref.dim() != 2:
        return
    Bm = ctx.leaf("rhsB", (n, 1))
    Ainv = torch.linalg.inv(ref)
    if g in ("solve", "solve_memeff"):
        Gt = ctx.leaf("cotG", (n, 1), requires_grad=False)
        cm = settings.memory_efficient(True) if g == "solve_memeff" else contextlib.nullcontext()
        def chk():
            with cm:
                compare_grads(ctx, (Gt * op.solve(Bm)).sum(), (Gt * (Ainv @ Bm)).sum(), g)
        attempt(ctx, g, chk)
    elif g == "solve_left":
        Lf = ctx.leaf("lhsL", (1, n))
        attempt(ctx, g, lambda: compare_grads(ctx, op.solve(Bm, Lf).sum(), (Lf @ Ainv @ Bm).sum(), "solve(left)"))
    elif g == "inv_quad":
        attempt(ctx, g, lambda: compare_grads(ctx, op.inv_quad(Bm), (Bm * (Ainv @ Bm)).sum(), "inv_quad"))
    elif g == "logdet":
        from props.linalg_oracles import det_ref
        attempt(ctx, g, lambda: compare_grads(ctx, op.logdet(), torch.log(det_ref(ref)), "logdet"))
    elif g == "inv_quad_logdet":
        from props.linalg_oracles import det_ref
        def chk():
            iq, ld = op.inv_quad_logdet(Bm, logdet=True)
            compare_grads(ctx, iq + 0.5 * ld, (Bm * (Ainv @ Bm)).sum() + 0.5 * torch.log(det_ref(ref)), "inv_quad_logdet")
        attempt(ctx, g, chk)
    else:
        raise ValueError(g)
