"""C09 — Lanczos returns an orthonormal basis and the projected tridiagonal."""
from __future__ import annotations

import torch

from linear_operator.utils.lanczos import lanczos_tridiag
from props.common import SIGNALS, attempt

PID = "C09"
CONCLUSIVE_FLOOR = {"quick": 20, "thorough": 40}


def cells(tier, seed):
    out = []
    for n, kind in ((2, "full"),) + (((3, "diag"),) if tier == "quick" else ((3, "diag"), (3, "diag_rank1"))):
        for max_iter in (range(1, n + 3) if (n == 2 or tier != "quick") else (1, 3)):
            for batch in ((), (2,)) if (n == 2) else ((),):
                for nvec in (1, 2) if n == 2 else (1,):
                    for init in ("given", "random"):
                        if init == "random" and (batch or nvec == 2):
                            continue
                        out.append({"id": f"n{n}-{kind}/it{max_iter}/b{'x'.join(map(str, batch)) or '-'}/v{nvec}/{init}",
                                    "params": {"n": n, "kind": kind, "max_iter": max_iter, "batch": list(batch), "nvec": nvec, "init": init}})
    for order in ("near,generic", "generic,near"):
        out.append({"id": f"near_breakdown/n3const/{order}", "params": {"group": "near_breakdown", "n": 3, "order": order}})
    for sign in ("pos", "neg", "small"):
        out.append({"id": f"to_diag/k2/{sign}", "params": {"group": "to_diag", "sign": sign}})
    return out


def explore_opts(params, tier):
    return {"timeout_s": 5.0 if tier == "quick" else 30.0, "max_paths": 8, "norm_first": True, "path_budget_s": 120.0,
            "engine_opts": {"cut_sites": ("lanczos_tridiag",)}}


def describe(tier):
    return {
        "bounds": {"n": "2 (full symbolic L L^T) and 3 (diagonal A, fully symbolic start vector)", "max_iter": "1..n+2", "batch": ["()", "(2,)"], "init vectors": [1, 2]},
        "outside": ["n > 3", "loss of orthogonality in floating point (in R the re-orthogonalisation loop is dead: the solver must prove its exit)",
                    "rank-deficient / repeated-eigenvalue breakdown paths beyond what the forks reach"],
        "assumptions": ["at n = 3 the matrix is diagonal but the start vector is fully symbolic: Lanczos is equivariant under orthogonal changes of basis, "
                        "which the code is not told, so every statement still executes on non-trivial data"],
    }


def harness(ctx):
    p = ctx.params
    if p.get("group") == "near_breakdown":
        return near_breakdown(ctx, p)
    if p.get("group") == "to_diag":
        return to_diag(ctx, p)
    n, batch, nvec = p["n"], tuple(p["batch"]), p["nvec"]
    if p["kind"] == "full":
        L = ctx.leaf("L", batch + (n, n), tril=True, posdiag=True)
        A = L @ L.mT
    elif p["kind"] == "diag":
        d = ctx.leaf("d", batch + (n,), positive=True)
        A = torch.diag_embed(d)
    else:
        d = ctx.leaf("d", batch + (n,), positive=True)
        u = ctx.leaf("u", batch + (n, 1))
        A = torch.diag_embed(d) + u @ u.mT
    init = ctx.leaf("init", batch + (n, nvec)) if p["init"] == "given" else None

    def chk():
        kw = {"init_vecs": init} if init is not None else {}
        Q, Tm = lanczos_tridiag(lambda z: A @ z, p["max_iter"], dtype=torch.float64, device=torch.device("cpu"), matrix_shape=torch.Size((n, n)),
                                batch_shape=torch.Size(batch), **kw)
        k = Tm.shape[-1]
        if k > min(p["max_iter"], n):
            ctx.fail("iterations", f"returned {k} Lanczos vectors for max_iter={p['max_iter']}, n={n}")
        if nvec == 2 and init is not None:
            Ab = A.unsqueeze(0) if True else A
        else:
            Ab = A
        I = torch.eye(k, dtype=torch.float64).expand(*Q.shape[:-2], k, k)
        ctx.eq(Q.mT @ Q, I, "Q^T Q = I")
        ctx.eq(Tm, Tm.mT, "T symmetric")
        if k >= 3:
            ctx.eq(Tm[..., 0, 2], torch.zeros_like(Tm[..., 0, 2]), "T tridiagonal")
            ctx.eq(Tm[..., 2, 0], torch.zeros_like(Tm[..., 2, 0]), "T tridiagonal'")
        AQ = Ab @ Q
        ctx.eq(Q.mT @ AQ, Tm, "Q^T A Q = T")
        Rm = AQ - Q @ Tm
        if k > 1:
            ctx.eq(Rm[..., :, :-1], torch.zeros_like(Rm[..., :, :-1]), "A Q - Q T supported in the last column")
        if k == n:
            ctx.eq(Q @ Tm @ Q.mT, Ab.expand_as(Q @ Tm @ Q.mT), "Q T Q^T = A at full Krylov dimension")
    attempt(ctx, "lanczos", chk)


def near_breakdown(ctx, p):
    """two start vectors; one of them almost lies in a 2-dimensional invariant subspace (its second Lanczos beta is ~1e-8, below
    the 1e-6 stopping threshold, but not zero), the other is generic: the recurrence must go on for the generic one"""
    n = 3
    A = torch.diag_embed(torch.tensor([1.0, 2.0, 4.0], dtype=torch.float64))
    near = torch.tensor([[1.0], [1.0], [2.0 ** -27]], dtype=torch.float64)
    gen = ctx.leaf("init", (n, 1))
    init = torch.cat([near, gen], -1) if p["order"] == "near,generic" else torch.cat([gen, near], -1)
    jg = 1 if p["order"] == "near,generic" else 0

    def chk():
        Q, Tm = lanczos_tridiag(lambda z: A @ z, n, dtype=torch.float64, device=torch.device("cpu"), matrix_shape=torch.Size((n, n)),
                                batch_shape=torch.Size(()), init_vecs=init)
        k = Tm.shape[-1]
        if tuple(Q.shape) != (2, n, k) or tuple(Tm.shape) != (2, k, k):
            ctx.fail("shapes", f"Q {tuple(Q.shape)} T {tuple(Tm.shape)}")
            return
        Qg, Tg = Q[jg], Tm[jg]
        ctx.eq(Qg.mT @ Qg, torch.eye(k, dtype=torch.float64), "generic vector: Q^T Q = I")
        ctx.eq(Qg.mT @ (A @ Qg), Tg, "generic vector: Q^T A Q = T")
        if k < n:
            # stopped early: legitimate only if EVERY start vector has exhausted its Krylov space (|beta| <= 1e-6)
            Rm = A @ Qg - Qg @ Tg
            beta = (Rm[:, -1] * Rm[:, -1]).sum().sqrt()
            ctx.true((beta <= 1e-6).reshape(1), "early termination only when every start vector has broken down (generic vector's beta <= 1e-6)")
        else:
            ctx.eq(Qg @ Tg @ Qg.mT, A, "generic vector: Q T Q^T = A at full Krylov dimension")
    attempt(ctx, "near_breakdown", chk)


def to_diag(ctx, p):
    """lanczos_tridiag_to_diag: eigen-decomposition of T with negative Ritz values masked (value 1, vector 0)"""
    from linear_operator.utils.lanczos import lanczos_tridiag_to_diag

    Qr = ctx.rotation2("TQ")
    if p["sign"] == "pos":
        w = ctx.leaf("Tw", (2,), lo=0.125, hi=64, ascending=True)
    elif p["sign"] == "small":
        # a strictly positive but relatively tiny Ritz value is still a Ritz value
        w0 = ctx.leaf("Tw0", (1,), lo=2.0 ** -40, hi=2.0 ** -10)
        w1 = ctx.leaf("Tw1", (1,), lo=1.0, hi=64)
        w = torch.cat([w0, w1])
    else:
        w0 = ctx.leaf("Tw0", (1,), lo=-64, hi=-0.125)
        w1 = ctx.leaf("Tw1", (1,), lo=0.125, hi=64)
        w = torch.cat([w0, w1])
    Tm = Qr @ torch.diag_embed(w) @ Qr.mT
    ctx.register_eigh(Tm, w, Qr)

    def chk():
        ev, V = lanczos_tridiag_to_diag(Tm.clone())
        if p["sign"] in ("pos", "small"):
            ctx.eq(ev, w, "positive Ritz values are returned unchanged")
            ctx.eq(V @ torch.diag_embed(ev) @ V.mT, Tm, "V diag(evals) V^T = T for a positive definite T")
            ctx.eq(V.mT @ V, torch.eye(2, dtype=torch.float64), "V orthonormal")
        else:
            ctx.eq(ev, torch.cat([torch.ones(1, dtype=torch.float64), w1]), "negative Ritz value replaced by 1, positive one unchanged")
            ctx.eq(V @ torch.diag_embed(ev) @ V.mT, w1 * (Qr[:, 1:] @ Qr[:, 1:].mT), "V diag(evals) V^T = positive part of T")
    attempt(ctx, "to_diag", chk)
