"""C15 — torch.* dispatch on operators matches the methods, in either argument order."""
from __future__ import annotations

import torch

import linear_operator.operators._linear_operator as LO
from catalog.builders import BUILDERS
from linear_operator.operators import LinearOperator
from props.common import SIGNALS, attempt

PID = "C15"
CONCLUSIVE_FLOOR = {"quick": 100, "thorough": 300}

GROUPS = ["struct", "arith_tensor", "arith_scalar", "arith_op", "elementwise", "unregistered", "linalg"]
QUICK_BUILDERS = ["Dense", "DensePD", "Diag", "ConstantDiag", "Identity", "Zero", "Toeplitz", "TriangularLower", "CholLower",
                  "Root", "Kronecker", "KroneckerPD", "KroneckerAddedConstDiag", "AddedDiag", "LowRankRootAddedDiag", "Sum",
                  "Matmul", "ConstantMul", "BlockDiag", "BlockInterleaved", "SumBatch", "BatchRepeat", "CatRows", "Interpolated",
                  "Masked", "Permutation", "Kernel", "UserMinimal", "DenseRect"]


def cells(tier, seed):
    out = []
    names = QUICK_BUILDERS if tier == "quick" else list(BUILDERS)
    shapes = [(2, ()), (2, (2,))] if tier == "quick" else [(1, ()), (2, ()), (3, ()), (2, (2,)), (2, (2, 1))]
    for name in ("Toeplitz", "Dense", "Diag", "Kronecker", "Sum", "ConstantMul", "Root"):
        out.append({"id": f"{name}/n2/b2x2/arith_const2", "params": {"builder": name, "n": 2, "batch": [2, 2], "group": "arith_const2"}})
    for name in names:
        b = BUILDERS[name]
        for n, batch in shapes:
            if name in ("BlockDiagDim", "TransposePermutation") and (batch != () or n > 2):
                continue
            if "nested" in b.tags and (n > 2 or len(batch) > 1):
                continue
            if "fixedbatch" in b.tags and (n != 2 or batch):
                continue
            if "eig" in b.tags and (n != 2 or batch):
                continue
            for g in GROUPS:
                if g == "linalg" and not b.pd:
                    continue
                out.append({"id": f"{name}/n{n}/b{'x'.join(map(str, batch)) or '-'}/{g}",
                            "params": {"builder": name, "n": n, "batch": list(batch), "group": g}})
    return out


def explore_opts(params, tier):
    return {"timeout_s": 1.0 if tier == "quick" else 8.0, "max_paths": 8, "norm_first": params["group"] == "linalg",
            "engine_opts": {"cut_sites": ("make_sparse_from_indices_and_values",), "floor_cut": True}}


def describe(tier):
    return {
        "bounds": {"matrix_size_n": [2] if tier == "quick" else [1, 2, 3], "groups": GROUPS,
                   "registered_functions": sorted(getattr(f, "__name__", str(f)) for f in LO._HANDLED_FUNCTIONS),
                   "second_arg_functions": sorted(getattr(f, "__qualname__", str(f)) for f in LO._HANDLED_SECOND_ARG_FUNCTIONS),
                   "builders": QUICK_BUILDERS if tier == "quick" else sorted(BUILDERS)},
        "outside": ["linalg group compares factorisations through their defining products (non-unique factors)",
                    "torch.isclose only for exactly equal operands (tolerance comparison has no R semantics)"],
        "assumptions": ["both registration tables are read from the imported module at run time; a registered function without a "
                        "call recipe in props/c15.py is reported as inconclusive"],
    }


RECIPED = set()


def _recipe(*fs):
    for f in fs:
        RECIPED.add(f)


_recipe(torch.clone, torch.numel, torch.transpose, torch.permute, torch.squeeze, torch.unsqueeze, torch.sum, torch.prod,
        torch.diagonal, torch.add, torch.sub, torch.mul, torch.div, torch.matmul, torch.abs, torch.exp, torch.log, torch.sqrt,
        torch.isclose, torch.logdet, torch.inverse, torch.linalg.solve, torch.linalg.cholesky, torch.linalg.eigh,
        torch.linalg.eigvalsh, torch.linalg.svd, torch.linalg.solve_triangular, torch.Tensor.matmul, torch.Tensor.mul,
        torch.Tensor.add, torch.Tensor.sub)


def harness(ctx):
    p = ctx.params
    b = BUILDERS[p["builder"]]
    batch = tuple(p["batch"])
    op, ref = b(ctx, p["n"], batch)
    g = p["group"]
    m, n = ref.shape[-2:]
    sq = m == n

    def both(label, f_torch, f_method, f_dense, explicit_unsupported_ok=False):
        """torch.f(op) == op.method() == torch.f(dense)"""
        def run():
            try:
                expect = f_dense()
            except RuntimeError:
                return  # torch rejects this on the dense tensor: nothing to compare
            try:
                r1 = f_torch()
            except NotImplementedError:
                if explicit_unsupported_ok:
                    return
                raise
            ctx.eq(r1, expect, f"torch.{label}")
            if f_method is not None:
                ctx.eq(f_method(), expect, f"method.{label}")
        attempt(ctx, label, run)

    if g == "struct":
        uncovered = [f for f in list(LO._HANDLED_FUNCTIONS) + list(LO._HANDLED_SECOND_ARG_FUNCTIONS) if f not in RECIPED]
        if uncovered:
            raise SIGNALS[0](f"registered functions without a recipe: {uncovered}")
        both("clone", lambda: torch.clone(op), lambda: op.clone(), lambda: ref.clone())
        if torch.numel(op) != ref.numel() or op.numel() != ref.numel():
            ctx.fail("torch.numel", f"{torch.numel(op)} vs {ref.numel()}")
        both("transpose", lambda: torch.transpose(op, -1, -2), lambda: op.transpose(-1, -2), lambda: ref.transpose(-1, -2))
        both("transpose(-2,-1)", lambda: torch.transpose(op, -2, -1), lambda: op.transpose(-2, -1), lambda: ref.transpose(-2, -1))
        both("unsqueeze(0)", lambda: torch.unsqueeze(op, 0), lambda: op.unsqueeze(0), lambda: ref.unsqueeze(0))
        both("sum(-1)", lambda: torch.sum(op, -1), lambda: op.sum(-1), lambda: ref.sum(-1))
        both("sum(-2)", lambda: torch.sum(op, -2), lambda: op.sum(-2), lambda: ref.sum(-2))
        both("sum()", lambda: torch.sum(op), lambda: op.sum(), lambda: ref.sum())
        if sq:
            both("diagonal", lambda: torch.diagonal(op, dim1=-2, dim2=-1), lambda: op.diagonal(), lambda: ref.diagonal(dim1=-2, dim2=-1),
                 explicit_unsupported_ok=True)
        if ref.dim() > 2:
            nb = ref.dim() - 2
            perm = tuple(reversed(range(nb))) + (nb, nb + 1)
            both("permute", lambda: torch.permute(op, perm), lambda: op.permute(*perm), lambda: ref.permute(*perm))
            both("sum(0)", lambda: torch.sum(op, 0), lambda: op.sum(0), lambda: ref.sum(0))
            both("unsqueeze(1)", lambda: torch.unsqueeze(op, 1), lambda: op.unsqueeze(1), lambda: ref.unsqueeze(1))
            both("squeeze(unsqueeze)", lambda: torch.squeeze(torch.unsqueeze(op, 0), 0), lambda: op.unsqueeze(0).squeeze(0), lambda: ref)
        return

    if g == "arith_tensor":
        Tn = ctx.leaf("argT", tuple(ref.shape))
        X = ctx.leaf("argX", (n, 2))
        Y = ctx.leaf("argY", (2, m))
        both("add(op,T)", lambda: torch.add(op, Tn), lambda: op + Tn, lambda: ref + Tn)
        both("add(T,op)", lambda: torch.add(Tn, op), lambda: Tn + op, lambda: Tn + ref)
        both("sub(op,T)", lambda: torch.sub(op, Tn), lambda: op - Tn, lambda: ref - Tn)
        both("sub(T,op)", lambda: torch.sub(Tn, op), lambda: Tn - op, lambda: Tn - ref)
        both("mul(op,T)", lambda: torch.mul(op, Tn), lambda: op * Tn, lambda: ref * Tn)
        both("mul(T,op)", lambda: torch.mul(Tn, op), lambda: Tn * op, lambda: Tn * ref)
        both("matmul(op,X)", lambda: torch.matmul(op, X), lambda: op @ X, lambda: ref @ X)
        both("matmul(Y,op)", lambda: torch.matmul(Y, op), lambda: Y @ op, lambda: Y @ ref)
        both("Tensor.matmul(Y,op)", lambda: Y.matmul(op), None, lambda: Y.matmul(ref))
        both("Tensor.add(T,op)", lambda: Tn.add(op), None, lambda: Tn.add(ref))
        both("Tensor.sub(T,op)", lambda: Tn.sub(op), None, lambda: Tn.sub(ref))
        both("Tensor.mul(T,op)", lambda: Tn.mul(op), None, lambda: Tn.mul(ref))
        v = ctx.leaf("argv", (n,))
        both("matmul(op,v)", lambda: torch.matmul(op, v), lambda: op @ v, lambda: ref @ v)
        return

    if g == "arith_scalar":
        c0 = ctx.leaf("argc0", ())
        both("mul(op,2.5)", lambda: torch.mul(op, 2.5), lambda: op * 2.5, lambda: ref * 2.5)
        both("mul(op,-1.0)", lambda: torch.mul(op, -1.0), lambda: op * -1.0, lambda: ref * -1.0)
        both("mul(op,0.0)", lambda: torch.mul(op, 0.0), lambda: op * 0.0, lambda: ref * 0.0)
        both("mul(op,0d)", lambda: torch.mul(op, c0), lambda: op * c0, lambda: ref * c0)
        both("mul(0d,op)", lambda: torch.mul(c0, op), lambda: c0 * op, lambda: c0 * ref)
        both("div(op,2.0)", lambda: torch.div(op, 2.0), lambda: op / 2.0, lambda: ref / 2.0)
        both("div(op,0d)", lambda: torch.div(op, c0), lambda: op / c0, lambda: ref / c0)
        both("mul(2.0,op) via rmul", lambda: 2.0 * op, None, lambda: 2.0 * ref)
        return

    if g == "arith_const2":
        for tag, shp in (("(2,1,1,1)", (2, 1, 1, 1)), ("(1,2,1,1)", (1, 2, 1, 1)), ("(2,2,1,1)", (2, 2, 1, 1))):
            c = ctx.leaf("argc" + tag.replace(",", "").replace("(", "").replace(")", ""), shp)
            both(f"mul(op,const{tag})", lambda c=c: torch.mul(op, c), lambda c=c: op * c, lambda c=c: ref * c)
            both(f"mul(const{tag},op)", lambda c=c: torch.mul(c, op), lambda c=c: c * op, lambda c=c: c * ref)
            both(f"div(op,const{tag})", lambda c=c: torch.div(op, c), lambda c=c: op / c, lambda c=c: ref / c)
        return
    if g == "arith_op":
        op2, ref2 = b(ctx, p["n"], batch, p="o2_")
        both("add(op,op2)", lambda: torch.add(op, op2), lambda: op + op2, lambda: ref + ref2)
        both("sub(op,op2)", lambda: torch.sub(op, op2), lambda: op - op2, lambda: ref - ref2)
        if sq:
            both("matmul(op,op2)", lambda: torch.matmul(op, op2), lambda: op @ op2, lambda: ref @ ref2)
        return

    if g == "elementwise":
        # defined elementwise on the dense matrix; classes that cannot support it must say so explicitly
        both("abs", lambda: torch.abs(op), lambda: op.abs(), lambda: ref.abs(), explicit_unsupported_ok=True)
        return

    if g == "unregistered":
        for nm, f in (("trace", lambda: torch.trace(op)), ("cumsum", lambda: torch.cumsum(op, -1)), ("det", lambda: torch.linalg.det(op)),
                      ("tril", lambda: torch.tril(op)), ("flip", lambda: torch.flip(op, (-1,))), ("cat", lambda: torch.cat([op, op], -1)),
                      ("Tensor.div second", lambda: torch.div(ctx.const(2.0), op)), ("mean", lambda: torch.mean(op))):
            try:
                r = f()
                ctx.fail(f"unregistered.{nm}", f"returned {type(r).__name__} instead of raising NotImplementedError")
            except NotImplementedError:
                pass
            except SIGNALS:
                raise
            except Exception as e:  # noqa: BLE001
                ctx.fail(f"unregistered.{nm}", f"raised {type(e).__name__} instead of NotImplementedError: {str(e)[:120]}")
        return

    if g == "linalg":
        from props.linalg_oracles import check_linalg_dispatch

        check_linalg_dispatch(ctx, op, ref)
        return
    raise ValueError(g)
