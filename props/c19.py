"""C19 — incompatible shapes and out-of-range indices raise, never mis-compute."""
from __future__ import annotations

import torch

import linear_operator
from catalog.builders import BUILDERS
from linear_operator import settings
from props.common import SIGNALS

PID = "C19"
CONCLUSIVE_FLOOR = {"quick": 60, "thorough": 150}

IDX_BUILDERS = ["Dense", "Diag", "ConstantDiag", "Identity", "Zero", "Toeplitz", "TriangularLower", "CholLower", "Root", "Kronecker", "KroneckerDiag",
                "KroneckerAddedDiag", "AddedDiag", "LowRankRootAddedDiag", "Sum", "Matmul", "Mul", "ConstantMul", "BlockDiag", "BlockInterleaved",
                "SumBatch", "BatchRepeat", "CatRows", "CatCols", "Interpolated", "Masked", "Permutation", "Kernel", "UserMinimal"]
SHAPE_BUILDERS = IDX_BUILDERS + ["DenseRect", "KroneckerRect", "KroneckerPD", "DensePD"]


def cells(tier, seed):
    out = []
    for name in IDX_BUILDERS:
        for batch in ((), (2,)):
            if tier == "quick" and batch and name not in ("Dense", "Diag", "Toeplitz", "Kronecker", "BlockDiag", "CatRows", "BatchRepeat"):
                continue
            for pos in ("row", "col", "both", "batch", "int"):
                if pos == "batch" and not batch:
                    continue
                for debug in (True,) if tier == "quick" else (True, False):
                    if pos == "int" and not debug:
                        continue  # settings.debug(False) switches the library's own python-int range validation off on purpose
                    out.append({"id": f"index/{name}/b{'x'.join(map(str, batch)) or '-'}/{pos}/d{int(debug)}",
                                "params": {"group": "index", "builder": name, "n": 2, "batch": list(batch), "pos": pos, "debug": debug}})
    for name in SHAPE_BUILDERS:
        for batch in ((), (2,)):
            out.append({"id": f"shapes/{name}/b{'x'.join(map(str, batch)) or '-'}", "params": {"group": "shapes", "builder": name, "n": 2, "batch": list(batch)}})
    out.append({"id": "construct/interp_indices", "params": {"group": "construct", "what": "interp", "n": 2, "batch": []}})
    return out


def explore_opts(params, tier):
    return {"timeout_s": 2.0 if tier == "quick" else 30.0, "max_paths": 24,
            "engine_opts": {"cut_sites": ("make_sparse_from_indices_and_values",), "range_mode": "fork"}}


def describe(tier):
    return {
        "bounds": {"n": 2, "index positions": ["row tensor", "col tensor", "row+col tensors", "batch tensor", "python int (enumerated -4..3)"],
                   "second-operand shapes": "wrong inner dim, size-1 inner dim, extra / missing dims, non-broadcastable batch (enumerated, n <= 3)"},
        "outside": ["CrossHair checks of the pure-Python shape helpers (not built)", "shapes are concrete integers consumed by real torch kernels: the "
                    "shape-admissibility part is an enumeration read off the execution, reported as auxiliary (not solver-decided)"],
        "assumptions": ["LongTensor index entries are UNCONSTRAINED symbolic integers; the bounds checks of the real gather / index kernels are modelled "
                        "as forks (out of range -> IndexError, as the kernel does); obligation: on every path that returns, the path condition implies "
                        "-size <= index < size"],
    }


def harness(ctx):
    p = ctx.params
    g = p["group"]
    batch = tuple(p.get("batch", ()))
    if g == "index":
        with settings.debug(p["debug"]):
            op, ref = BUILDERS[p["builder"]](ctx, p["n"], batch)
            nb = ref.dim() - 2
            R, C = ref.shape[-2], ref.shape[-1]
            full = slice(None)
            pos = p["pos"]
            if pos == "int":
                # python ints are concrete: enumerate a window around the valid range, both matrix positions
                for dim, size in ((-2, R), (-1, C)):
                    for v in range(-size - 2, size + 2):
                        idx = [full] * ref.dim()
                        idx[dim] = v
                        valid = -size <= v < size
                        try:
                            res = op[tuple(idx)]
                        except SIGNALS:
                            raise
                        except Exception:  # noqa: BLE001
                            if valid:
                                pass  # C03's business
                            continue
                        if not valid:
                            ctx.fail(f"int index {v} on dim {dim} (size {size})", f"returned shape {tuple(res.shape)} instead of raising")
                ctx.eq(ref, ref, "noop")
                return
            leaves = {}

            def L(name, size, shape=(2,)):
                leaves[name] = (ctx.leaf(name, shape, kind="int", lo=None, hi=None, owned=True), size)
                return leaves[name][0]

            idx = [full] * ref.dim()
            if pos in ("row", "both"):
                idx[-2] = L("irow", R)
            if pos in ("col", "both"):
                idx[-1] = L("icol", C)
            if pos == "batch":
                idx[0] = L("ibatch", ref.shape[0])
                idx[-1] = L("icol", C)
            try:
                res = op[tuple(idx)]
                if not isinstance(res, torch.Tensor):
                    res = res.to_dense()
            except SIGNALS:
                raise
            except Exception:  # noqa: BLE001
                ctx.eq(ref, ref, "noop")
                return  # raising is always acceptable for this property
            # the call returned: every index entry must provably be in range on this path
            for name, (t, size) in leaves.items():
                ctx.true((t >= -size) & (t < size), f"returned => {name} in [-{size}, {size})")
        return

    if g == "shapes":
        op, ref = BUILDERS[p["builder"]](ctx, p["n"], batch)
        m, n = ref.shape[-2:]
        f64 = torch.float64

        def expect_raise(label, f_dense, f_op):
            try:
                f_dense()
                return  # torch accepts it: not this property's case
            except (RuntimeError, IndexError, ValueError, TypeError):
                pass
            try:
                r = f_op()
                if not isinstance(r, torch.Tensor) and hasattr(r, "to_dense"):
                    r = r.to_dense()  # lazily composed results must fail at the latest when evaluated
            except SIGNALS:
                raise
            except Exception:  # noqa: BLE001
                return
            ctx.fail(label, f"returned shape {tuple(r.shape)} although dense torch raises")

        bad_inner = [n + 1, 1] if n > 1 else [n + 1]
        for k in bad_inner:
            X = torch.ones(k, 2, dtype=f64)
            expect_raise(f"matmul rhs ({k},2)", lambda X=X: ref @ X, lambda X=X: op @ X)
            expect_raise(f"matmul() rhs ({k},2)", lambda X=X: ref @ X, lambda X=X: op.matmul(X))
            v = torch.ones(k, dtype=f64)
            expect_raise(f"matmul vec ({k},)", lambda v=v: ref @ v, lambda v=v: op @ v)
        for k in ([m + 1, 1] if m > 1 else [m + 1]):
            Y = torch.ones(2, k, dtype=f64)
            expect_raise(f"rmatmul lhs (2,{k})", lambda Y=Y: Y @ ref, lambda Y=Y: Y @ op)
        Xb = torch.ones(3, n, 1, dtype=f64)
        if batch and batch[0] != 3:
            expect_raise("matmul non-broadcastable batch (3,n,1)", lambda: ref @ Xb, lambda: op @ Xb)
        for shp in ((m + 1, n), (m, n + 1), (3,) + tuple(ref.shape) if (batch and batch[0] not in (1, 3)) else (m + 1, n + 1)):
            Tn = torch.ones(*shp, dtype=f64)
            expect_raise(f"add tensor {shp}", lambda Tn=Tn: ref + Tn, lambda Tn=Tn: op + Tn)
            expect_raise(f"sub tensor {shp}", lambda Tn=Tn: ref - Tn, lambda Tn=Tn: op - Tn)
            expect_raise(f"mul tensor {shp}", lambda Tn=Tn: ref * Tn, lambda Tn=Tn: op * Tn)
        if m == n:
            d_bad = torch.ones(n + 1, dtype=f64)
            expect_raise("add_diagonal wrong length", lambda: ref + torch.diag_embed(d_bad), lambda: op.add_diagonal(d_bad))
            if BUILDERS[p["builder"]].pd:
                for k in bad_inner:
                    B = torch.ones(k, 1, dtype=f64)
                    expect_raise(f"solve rhs ({k},1)", lambda B=B: torch.linalg.solve(ref, B), lambda B=B: op.solve(B))
                    expect_raise(f"inv_quad rhs ({k},1)", lambda B=B: (B * torch.linalg.solve(ref, B)).sum(), lambda B=B: op.inv_quad(B))
        else:
            B = torch.ones(m, 1, dtype=f64)
            expect_raise("solve on rectangular", lambda: torch.linalg.solve(ref, B), lambda: op.solve(B))
            expect_raise("logdet on rectangular", lambda: torch.logdet(ref), lambda: op.logdet())
            expect_raise("diagonal-free: cholesky on rectangular", lambda: torch.linalg.cholesky(ref), lambda: op.cholesky())
        expect_raise("expand to incompatible size", lambda: ref.expand(*tuple(ref.shape[:-2]), m + 1, n), lambda: op.expand(*tuple(ref.shape[:-2]), m + 1, n))
        from linear_operator.operators import cat
        other = torch.ones(*ref.shape[:-2], m + 1, n, dtype=f64)
        expect_raise("cat(-1) mismatched rows", lambda: torch.cat([ref, other], dim=-1),
                     lambda: cat([op, linear_operator.to_linear_operator(other)], dim=-1))
        ctx.eq(ref, ref, "noop")
        return

    if g == "construct":
        from linear_operator.operators import DenseLinearOperator, InterpolatedLinearOperator
        n = p["n"]
        m = n + 1
        K = ctx.leaf("K", (m, m))
        li = ctx.leaf("li", (n, 2), kind="int", lo=None, hi=None)
        lv = ctx.leaf("lv", (n, 2))
        X = ctx.leaf("argX", (n, 1))
        try:
            op = InterpolatedLinearOperator(DenseLinearOperator(K), li, lv, li, lv)
            res = op @ X
        except SIGNALS:
            raise
        except Exception:  # noqa: BLE001
            ctx.eq(K, K, "noop")
            return
        ctx.true((li >= -m) & (li < m), "Interpolated matmul returned => interpolation indices in range")
        return
    raise ValueError(g)
