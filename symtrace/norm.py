"""NORM mode: executor-side normalisation of terms to rational functions num/den over sparse multivariate
polynomials (sympy PolyRing over QQ), reduced modulo the defining relations of the atoms:

* sqrt atoms r (r^2 = radicand), sign-free algebraic atoms, |x| (a^2 = x^2);
* finite-domain integers: an int variable k with declared range [lo,hi) is replaced by one-hot indicators
  e_{k,v} (e^2 = e, e_{k,v} e_{k,w} = 0, sum_v e_{k,v} = 1, the last one eliminated).  Every integer-valued
  subterm over ranged variables is the multilinear polynomial sum_assignments value * prod indicators, every
  comparison of such terms is the sum over satisfying assignments, and not/and/or/ite become 1-p, pq, p+q-pq,
  c a + (1-c) b.  Functions on a finite domain have a unique multilinear representation in the independent
  indicators, so this is a decision procedure for "ite over polynomial" obligations (indexing, gathers, sparse);
* anything else (uninterpreted functions, comparisons of reals, unranged integer div/mod) is an opaque generator
  identified by its hash-consed term (idempotent if Boolean) - sound for proving, incomplete.
"""
from __future__ import annotations

import itertools
from fractions import Fraction

from sympy.polys.domains import QQ
from sympy.polys.rings import ring

from . import terms as T

CANCEL_THRESHOLD = 8
MAX_ENUM = 4096


class NormFail(Exception):
    pass


def _int_vars(t, memo):
    """names of the variables a Z/B term depends on; None if it depends on anything real-valued"""
    if not isinstance(t, T.Term):
        return frozenset()
    r = memo.get(t.id)
    if r is not None or t.id in memo:
        return r
    if t.op == "var":
        r = frozenset([t.args[0]]) if t.sort in (T.Z, T.B) else None
    elif t.sort == T.R:
        r = None
    else:
        acc = set()
        r = None
        ok = True
        for a in t.args:
            if isinstance(a, T.Term):
                s = _int_vars(a, memo)
                if s is None:
                    ok = False
                    break
                acc |= s
        if ok:
            r = frozenset(acc)
    memo[t.id] = r
    return r


class Normaliser:
    def __init__(self, roots, cancel=CANCEL_THRESHOLD, max_terms=200000, fixed=None):
        roots = [r for r in roots if isinstance(r, T.Term)]
        self.fixed = dict(fixed or {})  # variable name -> constant implied by the path condition (var == const)
        self.nodes = T.reachable(roots)
        self.cancel = cancel
        self.max_terms = max_terms
        self.gen_of = {}
        self.ivmemo = {}
        names = []
        self.ranges = {}
        self.ind_names = {}  # (var, value) -> generator name  (all but the last value)
        groups = []
        idem = []
        for t in self.nodes:
            if t.op == "var" and t.sort == T.Z and t.args[0] in T._RANGES:
                lo, hi = T._RANGES[t.args[0]]
                self.ranges[t.args[0]] = (lo, hi)
                g = []
                for v in range(lo, hi - 1):
                    nm = f"e_{t.args[0]}_{v}"
                    self.ind_names[(t.args[0], v)] = nm
                    names.append(nm)
                    g.append(nm)
                groups.append(g)
            elif t.op == "var" and t.sort == T.B:
                nm = "b_" + t.args[0]
                self.gen_of[t.id] = nm
                names.append(nm)
                idem.append(nm)
        for t in self.nodes:
            if t.id in self.gen_of:
                continue
            if t.op == "var" and t.sort == T.R:
                self.gen_of[t.id] = "v_" + t.args[0]
            elif t.op == "var" and t.sort == T.Z and t.args[0] not in self.ranges:
                self.gen_of[t.id] = "v_" + t.args[0]
            elif t.op == "avar":
                self.gen_of[t.id] = "a_" + t.args[0]
            elif t.op == "sqrt":
                self.gen_of[t.id] = f"r_{t.id}"
            elif t.op == "abs" and t.sort == T.R:
                self.gen_of[t.id] = f"m_{t.id}"
            elif t.op in ("uf", "trunc") and t.sort == T.R:
                self.gen_of[t.id] = f"o_{t.id}"
            elif t.sort == T.Z and t.op != "var" and not self._enumerable(t):
                if t.op in ("floordiv", "pymod", "trunc", "abs", "ite"):
                    self.gen_of[t.id] = f"o_{t.id}"
            elif t.sort == T.B and t.op in ("eq", "lt", "le") and not self._enumerable(t):
                self.gen_of[t.id] = f"p_{t.id}"
                idem.append(f"p_{t.id}")
            else:
                continue
            if t.id in self.gen_of:
                names.append(self.gen_of[t.id])
        if not names:
            names = ["dummy"]
        assert len(set(names)) == len(names), "duplicate generator"
        self.names = names
        # sympy parses generator *strings* (commas, brackets split!) -> use opaque safe names
        safe = [f"g{i}" for i in range(len(names))]
        R_, *G = ring(safe, QQ)
        assert len(G) == len(names)
        self.R = R_
        self.G = dict(zip(names, G))
        self.idx = {n: i for i, n in enumerate(names)}
        self.rel = {}
        self.rel_order = []
        self.groups = [[self.idx[n] for n in g] for g in groups if g]
        self.group_of = {}
        for gi, g in enumerate(self.groups):
            for i in g:
                self.group_of[i] = gi
        self.idem = set(self.idx[n] for n in idem) | set(self.group_of)
        self.nf = {}
        self.bp = {}
        self.ind_cache = {}
        for t in self.nodes:
            self._conv(t)

    def _enumerable(self, t):
        vs = _int_vars(t, self.ivmemo)
        if vs is None:
            return False
        size = 1
        for v in vs:
            if v not in T._RANGES:
                return False
            lo, hi = T._RANGES[v]
            size *= max(hi - lo, 1)
            if size > MAX_ENUM:
                return False
        return True

    def _as_atom_square(self, d):
        """if d is (a positive constant times) the defining radicand of a sqrt atom r, return c' * r with (c' r)^2 = d"""
        for i, rad in self.rel.items():
            nm = self.names[i]
            if not nm.startswith("r_"):
                continue
            if rad == d:
                return self.R.gens[i]
        return None

    def _poly_positive(self, d):
        """sufficient syntactic test for d > 0: all coefficients positive and every generator that occurs to an odd power
        is a positive-declared variable or a square-root atom"""
        if d == 0:
            return False
        if not hasattr(self, "_posgens"):
            pos = set()
            for t in self.nodes:
                nm = self.gen_of.get(t.id)
                if nm is None:
                    continue
                if (t.op == "var" and t.id in T._POS) or (t.op == "sqrt" and T.is_positive(t)):
                    pos.add(self.idx[nm])
            self._posgens = pos
        for mon, coef in d.terms():
            if coef <= 0:
                return False
            for i, e in enumerate(mon):
                if e % 2 and i not in self._posgens:
                    return False
        return True

    # -- indicators
    def ind(self, var, val):
        k = (var, val)
        p = self.ind_cache.get(k)
        if p is not None:
            return p
        lo, hi = self.ranges[var]
        if var in self.fixed:
            p = self.R.one if val == self.fixed[var] else self.R.zero
        elif not lo <= val < hi:
            p = self.R.zero
        elif val < hi - 1:
            p = self.G[self.ind_names[k]]
        else:
            p = self.R.one
            for v in range(lo, hi - 1):
                p = p - self.G[self.ind_names[(var, v)]]
        self.ind_cache[k] = p
        return p

    def _enum_poly(self, t):
        """multilinear indicator polynomial of an enumerable Z/B term"""
        vs = sorted(_int_vars(t, self.ivmemo))
        doms = [range(*T._RANGES[v]) for v in vs]
        out = self.R.zero
        for assign in itertools.product(*doms):
            env = dict(zip(vs, assign))
            try:
                val = T.evalq([t], env)[0]
            except ZeroDivisionError:
                raise NormFail("integer division by zero under enumeration")
            if isinstance(val, bool):
                val = 1 if val else 0
            if val == 0:
                continue
            m = self._c(val)
            for v, a in zip(vs, assign):
                m = m * self.ind(v, a)
            out = out + m
        return self.red(out)

    # -- relation reduction
    def red(self, p):
        if p == 0 or (not self.rel and not self.idem):
            return p
        R_ = self.R
        rel = self.rel
        relidx = self.rel_order
        idem = self.idem
        group_of = self.group_of
        while True:
            hit = False
            out = R_.zero
            for mon, coef in p.terms():
                f = None
                m = None
                dead = False
                if idem:
                    seen_groups = None
                    for i in idem:
                        e = mon[i]
                        if e:
                            gi = group_of.get(i)
                            if gi is not None:
                                if seen_groups is None:
                                    seen_groups = {gi: i}
                                elif gi in seen_groups:
                                    dead = True
                                    break
                                else:
                                    seen_groups[gi] = i
                            if e >= 2:
                                if m is None:
                                    m = list(mon)
                                m[i] = 1
                                hit = True
                    if dead:
                        hit = True
                        continue
                for i in relidx:
                    e = mon[i]
                    if e >= 2:
                        if m is None:
                            m = list(mon)
                        k = e // 2
                        m[i] = e - 2 * k
                        q = rel[i] ** k
                        f = q if f is None else f * q
                        hit = True
                if m is None:
                    out += R_.term_new(mon, coef)
                elif f is None:
                    out += R_.term_new(tuple(m), coef)
                else:
                    out += R_.term_new(tuple(m), coef) * f
            p = out
            if not hit:
                return p
            if len(p) > self.max_terms:
                raise NormFail("polynomial too large")

    def _c(self, c):
        f = Fraction(c)
        return self.R(QQ(f.numerator, f.denominator))

    def _pair(self, x):
        if isinstance(x, T.Term):
            r = self.nf.get(x.id)
            if r is None:
                raise NormFail(f"no normal form for {x.op}/{x.sort}")
            return r
        if isinstance(x, bool):
            return (self.R.one if x else self.R.zero, self.R.one)
        return (self._c(x), self.R.one)

    def _bpoly(self, x):
        """0/1-valued polynomial of a Boolean cell"""
        if isinstance(x, T.Term):
            r = self.bp.get(x.id)
            if r is None:
                raise NormFail(f"no indicator form for {x.op}")
            return r
        return self.R.one if x else self.R.zero

    def _simp(self, n, d):
        R_ = self.R
        if n == 0:
            return (R_.zero, R_.one)
        if d != R_.one and self.cancel and (len(n) + len(d)) > self.cancel:
            n, d = n.cancel(d)
        if d != R_.one and d.is_ground:
            n = n.quo_ground(d.LC)
            d = R_.one
        if len(n) > self.max_terms or len(d) > self.max_terms:
            raise NormFail("polynomial too large")
        return (n, d)

    def _conv(self, t):
        R_ = self.R
        op = t.op
        if t.sort == T.B:
            self._conv_bool(t)
            return
        if t.sort == T.Z:
            if t.op == "var" and t.args[0] in self.fixed and t.args[0] not in self.ranges:
                self.nf[t.id] = (self._c(self.fixed[t.args[0]]), R_.one)
            elif t.op == "var" and t.args[0] in self.ranges:
                self.nf[t.id] = (self._enum_poly(t), R_.one)
            elif t.id in self.gen_of:
                self.nf[t.id] = (self.G[self.gen_of[t.id]], R_.one)
            elif self._enumerable(t):
                self.nf[t.id] = (self._enum_poly(t), R_.one)
            elif op in ("add", "mul", "neg"):
                self._conv_arith(t)
            elif op == "ite":
                self._conv_ite(t)
            else:
                raise NormFail(f"integer op {op} over unranged variables")
            return
        if op == "var" and t.args[0] in self.fixed:
            self.nf[t.id] = (self._c(self.fixed[t.args[0]]), R_.one)
            return
        if t.id in self.gen_of:
            g = self.G[self.gen_of[t.id]]
            if op == "sqrt":
                n, d = self._pair(t.args[0])
                i = self.idx[self.gen_of[t.id]]
                if n == 0:
                    self.nf[t.id] = (R_.zero, R_.one)  # sqrt of an identically-zero radicand
                    return
                if d == R_.one:
                    self.rel[i] = n
                    self.rel_order.insert(0, i)
                    self.nf[t.id] = (g, R_.one)
                elif self._as_atom_square(d) is not None:
                    # d = r^2 for an existing square-root atom r (> 0): sqrt(n/d) = sqrt(n)/r
                    self.rel[i] = n
                    self.rel_order.insert(0, i)
                    self.nf[t.id] = (g, self._as_atom_square(d))
                elif self._poly_positive(d):
                    # sqrt(n/d) = sqrt(n d)/d for d > 0 : the atom stands for sqrt(n d)
                    self.rel[i] = self.red(n * d)
                    self.rel_order.insert(0, i)
                    self.nf[t.id] = (g, d)
                else:
                    raise NormFail("sqrt of a rational function whose denominator is not syntactically positive")
                return
            if op == "avar":
                n, d = self._pair(t.args[1])
                if d != R_.one:
                    raise NormFail("avar with rational square")
                i = self.idx[self.gen_of[t.id]]
                self.rel[i] = n
                self.rel_order.insert(0, i)
                self.nf[t.id] = (g, R_.one)
                return
            if op == "abs":
                n, d = self._pair(t.args[0])
                if n == 0:
                    self.nf[t.id] = (R_.zero, R_.one)  # |0| = 0 (an identically-zero argument)
                    return
                if d != R_.one and not self._poly_positive(d):
                    raise NormFail("abs of rational function")
                # |n/d| = |n|/d for d > 0 : the atom stands for |n|
                i = self.idx[self.gen_of[t.id]]
                self.rel[i] = self.red(n * n)
                self.rel_order.insert(0, i)
                self.nf[t.id] = (g, d)
                return
            self.nf[t.id] = (g, R_.one)
            return
        if op == "toreal":
            self.nf[t.id] = self._pair(t.args[0])
            return
        if op == "ite":
            self._conv_ite(t)
            return
        self._conv_arith(t)

    def _conv_ite(self, t):
        R_ = self.R
        c = self._bpoly(t.args[0])
        (n1, d1), (n2, d2) = self._pair(t.args[1]), self._pair(t.args[2])
        nc = R_.one - c
        if d1 == d2:
            self.nf[t.id] = self._simp(self.red(c * n1 + nc * n2), d1)
        else:
            self.nf[t.id] = self._simp(self.red(c * n1 * d2 + nc * n2 * d1), self.red(d1 * d2))

    def _conv_arith(self, t):
        R_ = self.R
        op = t.op
        a = [self._pair(x) for x in t.args]
        if op == "add":
            (n1, d1), (n2, d2) = a
            if d1 == d2:
                res = self._simp(n1 + n2, d1)
            else:
                res = self._simp(self.red(n1 * d2 + n2 * d1), self.red(d1 * d2))
        elif op == "mul":
            (n1, d1), (n2, d2) = a
            res = self._simp(self.red(n1 * n2), self.red(d1 * d2) if (d1 != R_.one or d2 != R_.one) else R_.one)
        elif op == "neg":
            res = (-a[0][0], a[0][1])
        elif op == "div":
            (n1, d1), (n2, d2) = a
            if n2 == 0:
                raise NormFail("division by zero polynomial")
            res = self._simp(self.red(n1 * d2), self.red(d1 * n2))
        else:
            raise NormFail(f"op {op} sort {t.sort}")
        self.nf[t.id] = res

    def _conv_bool(self, t):
        R_ = self.R
        op = t.op
        if op == "var" and t.args[0] in self.fixed:
            p = R_.one if self.fixed[t.args[0]] else R_.zero
        elif t.id in self.gen_of:
            p = self.G[self.gen_of[t.id]]
        elif op in ("eq", "lt", "le"):
            p = self._enum_poly(t)
        elif op == "not":
            p = R_.one - self._bpoly(t.args[0])
        elif op == "and":
            p = self.red(self._bpoly(t.args[0]) * self._bpoly(t.args[1]))
        elif op == "or":
            a, b = self._bpoly(t.args[0]), self._bpoly(t.args[1])
            p = self.red(a + b - a * b)
        elif op == "iff":
            a, b = self._bpoly(t.args[0]), self._bpoly(t.args[1])
            p = self.red(R_.one - a - b + 2 * a * b)
        elif op == "ite":
            c, a, b = self._bpoly(t.args[0]), self._bpoly(t.args[1]), self._bpoly(t.args[2])
            p = self.red(c * a + (R_.one - c) * b)
        else:
            raise NormFail(f"bool op {op}")
        self.bp[t.id] = p
        self.nf[t.id] = (p, R_.one)

    def diff_numerator(self, a, b):
        """reduced numerator of a - b (zero polynomial <=> identity wherever denominators do not vanish)"""
        (n1, d1), (n2, d2) = self._pair(a), self._pair(b)
        if d1 == d2:
            return self.red(n1 - n2)
        return self.red(n1 * d2 - n2 * d1)


def prove_equal_cells(pairs, cancel=CANCEL_THRESHOLD):
    """pairs: list of (lhs, rhs) cells.  returns (all_zero, residual_sizes)"""
    roots = []
    for a, b in pairs:
        roots += [a, b]
    N = Normaliser(roots, cancel=cancel)
    sizes = []
    ok = True
    for a, b in pairs:
        p = N.diff_numerator(a, b)
        sizes.append(len(p))
        if p != 0:
            ok = False
    return ok, sizes


def path_fixed(path):
    """variable == constant facts stated directly by the path condition"""
    fixed = {}
    for c in path:
        if not isinstance(c, T.Term):
            continue
        if c.op == "var" and c.sort == T.B:
            fixed[c.args[0]] = True
        elif c.op == "not" and isinstance(c.args[0], T.Term) and c.args[0].op == "var":
            fixed[c.args[0].args[0]] = False
        elif c.op == "eq":
            a, b = c.args
            if isinstance(a, T.Term) and a.op == "var" and not isinstance(b, T.Term):
                fixed[a.args[0]] = b
            elif isinstance(b, T.Term) and b.op == "var" and not isinstance(a, T.Term):
                fixed[b.args[0]] = a
    return fixed
