"""NORM mode: executor-side normalisation of R-sorted terms to rational functions num/den over sparse
multivariate polynomials (sympy PolyRing over QQ), reduced modulo the defining relations of the algebraic atoms
(sqrt atoms r^2 = radicand, sign-free atoms, |x| with a^2 = x^2).  Anything else non-polynomial (uninterpreted
functions, ite, integer div/mod) is an opaque generator identified by its hash-consed term, which is sound for
proving identities (an identity that holds with the atom treated as a free variable holds for every value of it).
"""
from __future__ import annotations

from fractions import Fraction

from sympy.polys.domains import QQ
from sympy.polys.rings import ring

from . import terms as T

CANCEL_THRESHOLD = 8


class NormFail(Exception):
    pass


class Normaliser:
    def __init__(self, roots, cancel=CANCEL_THRESHOLD, max_terms=200000):
        roots = [r for r in roots if isinstance(r, T.Term)]
        self.nodes = T.reachable(roots)
        self.cancel = cancel
        self.max_terms = max_terms
        gens = []
        self.gen_of = {}  # term id -> generator name
        for t in self.nodes:
            if t.op == "var" and t.sort in (T.R, T.Z):
                self.gen_of[t.id] = "v_" + t.args[0]
            elif t.op == "avar":
                self.gen_of[t.id] = "a_" + t.args[0]
            elif t.op == "sqrt":
                self.gen_of[t.id] = f"r_{t.id}"
            elif t.op == "abs" and t.sort == T.R:
                self.gen_of[t.id] = f"m_{t.id}"
            elif t.op in ("uf", "ite", "trunc") and t.sort == T.R:
                self.gen_of[t.id] = f"o_{t.id}"
            elif t.sort == T.Z and t.op in ("floordiv", "pymod", "ite", "abs", "trunc"):
                self.gen_of[t.id] = f"o_{t.id}"
        names = [self.gen_of[t.id] for t in self.nodes if t.id in self.gen_of]
        if not names:
            names = ["dummy"]
        self.names = names
        R_, *G = ring(names, QQ)
        self.R = R_
        self.G = dict(zip(names, G))
        self.idx = {n: i for i, n in enumerate(names)}
        self.rel = {}  # generator index -> (num poly) with g^2 = num   (denominator-free)
        self.rel_order = []
        self.cache = {}
        self.nf = {}
        for t in self.nodes:
            self._conv(t)

    # -- relation reduction
    def red(self, p):
        if not self.rel or p == 0:
            return p
        R_ = self.R
        rel = self.rel
        relidx = self.rel_order
        while True:
            hit = False
            out = R_.zero
            for mon, coef in p.terms():
                f = None
                m = None
                for i in relidx:
                    e = mon[i]
                    if e >= 2:
                        if m is None:
                            m = list(mon)
                        k = e // 2
                        m[i] = e - 2 * k
                        q = rel[i] ** k
                        f = q if f is None else f * q
                        hit = True
                if f is None:
                    out += R_.term_new(mon, coef)
                else:
                    out += R_.term_new(tuple(m), coef) * f
            p = out
            if not hit:
                return p
            if len(p) > self.max_terms:
                raise NormFail("polynomial too large")

    def _c(self, c):
        f = Fraction(c)
        return self.R(QQ(f.numerator, f.denominator))

    def _pair(self, x):
        if isinstance(x, T.Term):
            return self.nf[x.id]
        if isinstance(x, bool):
            raise NormFail("bool in arithmetic")
        return (self._c(x), self.R.one)

    def _simp(self, n, d):
        R_ = self.R
        if n == 0:
            return (R_.zero, R_.one)
        if d != R_.one and self.cancel and (len(n) + len(d)) > self.cancel:
            n, d = n.cancel(d)
        if d != R_.one and d.is_ground:
            n = n.quo_ground(d.LC)
            d = R_.one
        if len(n) > self.max_terms or len(d) > self.max_terms:
            raise NormFail("polynomial too large")
        return (n, d)

    def _conv(self, t):
        R_ = self.R
        op = t.op
        if t.sort == T.B:
            return
        if t.id in self.gen_of:
            g = self.G[self.gen_of[t.id]]
            if op == "sqrt":
                n, d = self._pair(t.args[0])
                i = self.idx[self.gen_of[t.id]]
                if d == R_.one:
                    self.rel[i] = n
                    self.rel_order.insert(0, i)
                    self.nf[t.id] = (g, R_.one)
                else:
                    # sqrt(n/d) = sqrt(n*d)/|d| ; |d| needs an abs generator unless d is a positive constant
                    raise NormFail("sqrt of a rational function with non-constant denominator")
                return
            if op == "avar":
                n, d = self._pair(t.args[1])
                if d != R_.one:
                    raise NormFail("avar with rational square")
                i = self.idx[self.gen_of[t.id]]
                self.rel[i] = n
                self.rel_order.insert(0, i)
                self.nf[t.id] = (g, R_.one)
                return
            if op == "abs" and t.sort == T.R:
                n, d = self._pair(t.args[0])
                if d != R_.one:
                    raise NormFail("abs of rational function")
                i = self.idx[self.gen_of[t.id]]
                self.rel[i] = self.red(n * n)
                self.rel_order.insert(0, i)
                self.nf[t.id] = (g, R_.one)
                return
            self.nf[t.id] = (g, R_.one)
            return
        if op == "toreal":
            self.nf[t.id] = self._pair(t.args[0])
            return
        a = [self._pair(x) for x in t.args]
        if op == "add":
            (n1, d1), (n2, d2) = a
            if d1 == d2:
                res = self._simp(n1 + n2, d1)
            else:
                res = self._simp(self.red(n1 * d2 + n2 * d1), self.red(d1 * d2))
        elif op == "mul":
            (n1, d1), (n2, d2) = a
            res = self._simp(self.red(n1 * n2), self.red(d1 * d2) if (d1 != R_.one or d2 != R_.one) else R_.one)
        elif op == "neg":
            res = (-a[0][0], a[0][1])
        elif op == "div":
            (n1, d1), (n2, d2) = a
            if n2 == 0:
                raise NormFail("division by zero polynomial")
            res = self._simp(self.red(n1 * d2), self.red(d1 * n2))
        else:
            raise NormFail(f"op {op} sort {t.sort}")
        self.nf[t.id] = res

    def diff_numerator(self, a, b):
        """reduced numerator of a - b (zero polynomial <=> identity wherever denominators do not vanish)"""
        (n1, d1), (n2, d2) = self._pair(a), self._pair(b)
        if d1 == d2:
            return self.red(n1 - n2)
        return self.red(n1 * d2 - n2 * d1)

    def is_zero_diff(self, a, b):
        p = self.diff_numerator(a, b)
        if p == 0:
            return True
        # a non-zero residual may still vanish modulo the relations when atoms sit in denominators: rationalise once
        return False


def prove_equal_cells(pairs, cancel=CANCEL_THRESHOLD):
    """pairs: list of (lhs, rhs) cells.  returns (all_zero, residual_sizes)"""
    roots = []
    for a, b in pairs:
        roots += [a, b]
    N = Normaliser(roots, cancel=cancel)
    sizes = []
    ok = True
    for a, b in pairs:
        p = N.diff_numerator(a, b)
        sizes.append(len(p))
        if p != 0:
            ok = False
    return ok, sizes
