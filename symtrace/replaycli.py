"""./vcheck replay <json>: re-run a recorded counterexample against the real code (no symbolic mode)."""
import importlib
import json


def replay_file(path):
    from symtrace.run import replay

    d = json.load(open(path))
    mod = importlib.import_module(d["module"])
    ctx, err = replay(mod.harness, d["params"], d.get("model") or {})
    print(json.dumps({"cell": d["cell"], "label": d["label"], "failures": ctx.replay_failures[:5], "error": err}, indent=1, default=str))
    return 1 if ctx.replay_failures else 0
