"""Run a property's cell catalogue on a process pool, aggregate, write evidence, decide the exit code."""
from __future__ import annotations

import hashlib
import importlib
import json
import multiprocessing as mp
import os
import re
import sys
import time
import traceback

VERIF = os.path.dirname(os.path.dirname(os.path.abspath(__file__)))
OUTDIR = os.environ.get("VERIF_OUT", VERIF)  # seeded-defect experiments write evidence / replays elsewhere


def _worker(job):
    modname, cell, seed, tier = job
    import torch

    torch.set_num_threads(1)
    sys.setrecursionlimit(20000)
    from symtrace.run import explore

    mod = importlib.import_module(modname)
    t0 = time.time()
    try:
        opts = mod.explore_opts(cell["params"], tier) if hasattr(mod, "explore_opts") else {}
        rep = explore(mod.harness, cell["params"], seed=seed, **opts)
    except BaseException as e:  # noqa
        rep = {"fatal": f"{type(e).__name__}: {e}", "tb": traceback.format_exc(limit=20)}
    rep["cell"] = cell["id"]
    rep["params"] = cell["params"]
    rep["cell_wall_s"] = time.time() - t0
    # plain JSON text crosses the process boundary: a report that cannot be unpickled (deep terms, exotic objects) would
    # kill the pool's result-handler thread in the parent and hang the whole run
    try:
        return json.dumps(rep, default=str)
    except BaseException as e:  # noqa
        return json.dumps({"fatal": f"report not serialisable: {type(e).__name__}: {e}", "cell": cell["id"], "params": cell["params"],
                           "cell_wall_s": rep.get("cell_wall_s", 0.0)}, default=str)


def _show(rep):
    brief = {k: rep.get(k) for k in ("cell", "paths", "obligations", "proved", "refuted", "unknown", "by_mode")}
    print("  cell", json.dumps(brief, default=str), flush=True)
    for m in rep.get("inconclusive", [])[:3]:
        print("     inconclusive:", str(m)[:300], flush=True)
    for m in rep.get("errors", [])[:3]:
        print("     ERROR:", str(m)[:600], flush=True)
    if rep.get("fatal"):
        print("     FATAL:", rep["fatal"], rep.get("tb", "")[-800:], flush=True)


def _run_pool(modname, cells, seed, tier, jobs, verbose):
    """apply_async + watchdog: a worker that dies (or wedges inside a C call) loses its task for good in
    multiprocessing.Pool, so a run that makes no progress for STALL seconds is torn down, the unfinished cells are
    retried once in a fresh pool, and what is still missing is reported as a harness error - never as a pass."""
    stall = float(os.environ.get("VERIF_STALL_S", 420 if tier == "quick" else 2400))
    ctx = mp.get_context("fork")
    reports = []
    todo = list(cells)
    for attempt_no in (1, 2):
        if not todo:
            break
        pool = ctx.Pool(jobs, maxtasksperchild=40)
        pending = {c["id"]: (c, pool.apply_async(_worker, ((modname, c, seed, tier),))) for c in todo}
        last = time.time()
        while pending:
            done = [k for k, (_, r) in pending.items() if r.ready()]
            for k in done:
                c, r = pending.pop(k)
                try:
                    rep = json.loads(r.get())
                except BaseException as e:  # noqa
                    rep = {"fatal": f"worker: {type(e).__name__}: {e}", "cell": c["id"], "params": c["params"], "cell_wall_s": 0.0}
                reports.append(rep)
                if verbose:
                    _show(rep)
            if done:
                last = time.time()
            elif time.time() - last > stall:
                break
            else:
                time.sleep(0.05)
        try:
            pool.terminate()
            pool.join()
        except BaseException as e:  # noqa  (a dead handler thread makes terminate() assert)
            print(f"  pool teardown: {type(e).__name__}: {e}", flush=True)
        todo = [c for c, _ in pending.values()]
        if todo:
            print(f"  watchdog: no cell finished for {stall:.0f}s; {len(todo)} cell(s) unfinished after attempt {attempt_no}: "
                  f"{[c['id'] for c in todo][:8]}", flush=True)
    for c in todo:
        reports.append({"fatal": "no result from the worker (lost or wedged) in two attempts", "cell": c["id"], "params": c["params"],
                        "cell_wall_s": 0.0})
    return reports


def load_known(pid):
    p = os.environ.get("VERIF_KNOWN") or os.path.join(VERIF, "known_findings.json")  # override: experiments only
    if not os.path.exists(p):
        return []
    data = json.load(open(p))
    return [e for e in data.get("findings", []) if e.get("property") == pid and e.get("status", "open") == "open"]


def match_known(known, cell_id, label):
    for e in known:
        if re.fullmatch(e["cell"], cell_id) and re.fullmatch(e["label"], label):
            return e
    return None


def run_property(modname, tier, seed, jobs=None, only=None, verbose=False):
    mod = importlib.import_module(modname)
    pid = mod.PID
    t0 = time.time()
    cells = mod.cells(tier, seed)
    if only:
        cells = [c for c in cells if re.search(only, c["id"])]
    jobs = jobs or min(16, os.cpu_count() or 4)
    reports = _run_pool(modname, cells, seed, tier, jobs, verbose)
    reports.sort(key=lambda r: r["cell"])
    aux = mod.aux(tier, seed) if hasattr(mod, "aux") else None
    return finish(mod, pid, tier, seed, reports, aux, time.time() - t0, partial=bool(only))


def finish(mod, pid, tier, seed, reports, aux, wall, partial=False):
    known = load_known(pid)
    agg = {"cells": len(reports), "paths": 0, "obligations": 0, "proved": 0, "refuted": 0, "unknown": 0, "queries": 0,
           "solver_s": 0.0, "trace_s": 0.0, "pruned_branches": 0, "unknown_branches": 0, "nontrivial": 0, "cuts": 0,
           "defined_assumed": 0, "n_checked_ops": 0, "tainted": 0, "inplace_writes": 0, "owned_write_checks": 0, "paths_with_writes": 0,
           "tie_flips": 0, "illconditioned": 0}
    by_mode, ops, functions = {}, {}, set()
    inconclusive, errors, violations, known_hits, samples = [], [], [], [], []
    for r in reports:
        if r.get("fatal"):
            errors.append(f"{r['cell']}: {r['fatal']}")
            continue
        for k in agg:
            if k in r and k != "cells":
                agg[k] += r[k]
        for k, v in r["by_mode"].items():
            by_mode[k] = by_mode.get(k, 0) + v
        for k, v in r["ops"].items():
            ops[k] = ops.get(k, 0) + v
        functions |= set(r["functions"])
        inconclusive += [f"{r['cell']}: {m}" for m in r["inconclusive"]]
        errors += [f"{r['cell']}: {m}" for m in r["errors"]]
        for v in r["violations"]:
            v = dict(v)
            v["cell"] = r["cell"]
            v["params"] = r["params"]
            violations.append(v)
        for s in r["samples"][:1]:
            if len(samples) < 6:
                samples.append({"cell": r["cell"], **s})
    if aux:
        for k in ("obligations", "proved", "unknown", "queries", "solver_s"):
            agg[k] += aux.get(k, 0)
        agg["nontrivial"] += aux.get("proved", 0) + aux.get("unknown", 0)
        inconclusive += aux.get("inconclusive", [])
        errors += aux.get("errors", [])
        violations += aux.get("violations", [])
        samples += aux.get("samples", [])[:3]
        functions |= set(aux.get("functions", []))
        by_mode["CROSSHAIR"] = aux.get("proved", 0)

    out_lines = []
    new_violations = []
    os.makedirs(os.path.join(OUTDIR, "replays", pid), exist_ok=True)
    seen_known = {}
    for v in violations:
        e = match_known(known, v["cell"], v["label"])
        if e is not None:
            seen_known.setdefault(e["id"], (e, 0))
            seen_known[e["id"]] = (e, seen_known[e["id"]][1] + 1)
            continue
        payload = {"property": pid, "module": mod.__name__, "cell": v["cell"], "params": v["params"], "label": v["label"],
                   "model": v.get("model"), "detail": v.get("detail"), "replay": v.get("replay"), "mode": v.get("mode"),
                   "prefix": v.get("prefix")}
        h = hashlib.sha1(json.dumps([v["cell"], v["label"]], sort_keys=True, default=str).encode()).hexdigest()[:12]
        path = os.path.join(OUTDIR, "replays", pid, f"{h}.json")
        json.dump(payload, open(path, "w"), indent=1, default=str)
        new_violations.append((v, path))
    for eid, (e, cnt) in sorted(seen_known.items()):
        out_lines.append(f"KNOWN-FINDING: property={pid} {e['what']} [{eid}; {cnt} obligation(s)]")
    for v, path in new_violations:
        out_lines.append(f"VIOLATION property={pid} replay={path}")
        out_lines.append(f"   cell={v['cell']} label={v['label']} mode={v.get('mode')}")

    floor = getattr(mod, "CONCLUSIVE_FLOOR", {}).get(tier, 1)
    conclusive = agg["proved"] + agg["refuted"]
    status = 0
    if errors:
        status = 3
    if conclusive < floor and not new_violations and not partial:
        status = 3
        errors.append(f"conclusive obligations {conclusive} below floor {floor}")
    if new_violations:
        status = 1

    desc = mod.describe(tier) if hasattr(mod, "describe") else {}
    if getattr(mod, "COUNT_WRITE_PATHS", False):
        # mutation monitor: a non-trivial case is an explored path on which the library issued in-place / out= writes
        agg["nontrivial"] += agg["paths_with_writes"]
    evidence = {
        "property_id": pid,
        "tier": tier,
        "seed": int(seed),
        "level": "model_checking",
        "coverage": {
            "evaluations": int(agg["queries"] + agg["obligations"]),
            "distinct_nontrivial": int(agg["nontrivial"]),
            "rule": "one evaluation = one obligation family (set of cell equalities over all real/int leaf values for one "
                    "explored path of one harness cell) handed to the discharge pipeline, plus one per branch-feasibility "
                    "query; non-trivial = the two sides were not syntactically identical terms after smart-constructor "
                    "folding, i.e. a solver / normaliser verdict was needed; distinct = distinct (cell, path, label).",
            "samples": samples[:6] or [{"note": "no non-syntactic obligation in this run"}],
            "exhaustive": False,
            "technique": "symbolic shadow execution of the real ATen op stream (TorchDispatchMode) + z3 (RAW) / polynomial "
                         "normal form modulo atom relations (NORM) / seeded refutation, counterexamples replayed on the real code",
            "cells": agg["cells"],
            "paths": agg["paths"],
            "obligations": agg["obligations"],
            "proved": agg["proved"],
            "refuted_replayed": agg["refuted"],
            "unknown": agg["unknown"],
            "by_mode": by_mode,
            "queries": agg["queries"],
            "solver_time_s": round(agg["solver_s"], 3),
            "trace_time_s": round(agg["trace_s"], 3),
            "branches_pruned_unsat": agg["pruned_branches"],
            "branches_unknown": agg["unknown_branches"],
            "generic_case_cuts": agg["cuts"],
            "definedness_conditions_assumed": agg["defined_assumed"],
            "ops_cross_checked_against_real_kernel": agg["n_checked_ops"],
            "tainted_paths": agg["tainted"],
            "inplace_or_out_writes_monitored": agg["inplace_writes"],
            "writes_into_caller_owned_storage_compared": agg["owned_write_checks"],
            "float_comparison_tie_flips": agg["tie_flips"],
            "illconditioned_witness_paths": agg["illconditioned"],
            "functions_encoded": sorted(functions),
            "aten_ops": dict(sorted(ops.items(), key=lambda kv: -kv[1])),
            "bounds": desc.get("bounds", {}),
            "outside_claim": desc.get("outside", []),
            "inconclusive": inconclusive[:60],
            "inconclusive_count": len(inconclusive),
            "known_findings_hit": sorted(seen_known),
            "errors": errors[:20],
        },
        "assumptions": desc.get("assumptions", []) + [
            "float tensors are modelled as exact reals (no rounding, overflow, NaN/Inf)",
            "divisions / square roots / logs are assumed defined along the path (conditions counted above)",
            "the ATen op models are cross-checked against the real kernels at the witness point on every run",
        ],
        "wall_s": round(wall, 3),
        "violations": len(new_violations),
    }
    if aux and aux.get("coverage_extra"):
        evidence["coverage"].update(aux["coverage_extra"])
    os.makedirs(os.path.join(OUTDIR, "evidence"), exist_ok=True)
    # a run restricted with --only is a debugging aid: it must not replace the evidence of the full check
    ev_name = f"{pid}.only.json" if partial else f"{pid}.json"
    json.dump(evidence, open(os.path.join(OUTDIR, "evidence", ev_name), "w"), indent=1, default=str)
    print(f"[{pid}] tier={tier} cells={agg['cells']} paths={agg['paths']} obligations={agg['obligations']} proved={agg['proved']} "
          f"refuted={agg['refuted']} unknown={agg['unknown']} by_mode={by_mode} queries={agg['queries']} solver_s={agg['solver_s']:.1f} "
          f"inconclusive={len(inconclusive)} errors={len(errors)} wall={wall:.1f}s")
    for line in out_lines:
        print(line)
    if errors:
        for e in errors[:10]:
            print("HARNESS-ERROR:", str(e)[:500])
    return status
