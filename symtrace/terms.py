"""Hash-consed symbolic term DAG over three sorts (R reals, Z ints, B bools).

Cells of the symbolic store are either Python constants (Fraction / int / bool)
or `Term` nodes.  Terms are converted to z3 at query time (`to_z3`), evaluated in
float64 for the per-op translator cross-check (`evalf`) and exactly (`evalq`)
where no radical is involved.  Children always have smaller ids than parents, so
every traversal is a single pass over ids in increasing order (no recursion).
"""
from __future__ import annotations

import math
from fractions import Fraction

R, Z, B = "R", "Z", "B"


class Term:
    __slots__ = ("op", "args", "sort", "id")

    def __init__(self, op, args, sort, id_):
        self.op = op
        self.args = args
        self.sort = sort
        self.id = id_

    def __repr__(self):
        return show(self, 60)

    # never allow accidental truthiness (a symbolic bool used as Python bool)
    def __bool__(self):
        raise TypeError("symbolic term used as Python bool")

    def __eq__(self, other):
        return self is other

    def __add__(self, o):
        return add(self, o)

    __radd__ = __add__

    def __mul__(self, o):
        return mul(self, o)

    __rmul__ = __mul__

    def __sub__(self, o):
        return sub(self, o)

    def __rsub__(self, o):
        return sub(o, self)

    def __neg__(self):
        return neg(self)

    def __truediv__(self, o):
        return div(self, o)

    def __rtruediv__(self, o):
        return div(o, self)

    def __hash__(self):
        return self.id


_TAB: dict = {}
_NEXT = [1]


_POS: set = set()
_NONNEG: set = set()
_SIGN_MEMO: dict = {}
_RANGES: dict = {}  # int variable name -> (lo, hi) declared finite range [lo, hi)


def declare_range(name, lo, hi):
    _RANGES[name] = (int(lo), int(hi))


def reset():
    _TAB.clear()
    _NEXT[0] = 1
    _POS.clear()
    _NONNEG.clear()
    _SIGN_MEMO.clear()
    _RANGES.clear()
    _BOUNDS.clear()


def declare_positive(v):
    _POS.add(v.id)
    _NONNEG.add(v.id)


def declare_nonneg(v):
    _NONNEG.add(v.id)


def is_positive(x, depth=0):
    """sound, incomplete syntactic positivity (used only for |x| -> x and sqrt(x*x) -> x rewrites)"""
    if not isinstance(x, Term):
        return (not isinstance(x, bool)) and x > 0
    if x.id in _POS:
        return True
    k = ("p", x.id)
    if k in _SIGN_MEMO:
        return _SIGN_MEMO[k]
    r = False
    if depth < 40:
        op, a = x.op, x.args
        if op == "mul":
            r = (is_positive(a[0], depth + 1) and is_positive(a[1], depth + 1)) or (a[0] is a[1] and False)
        elif op == "add":
            r = (is_positive(a[0], depth + 1) and is_nonneg(a[1], depth + 1)) or (
                is_nonneg(a[0], depth + 1) and is_positive(a[1], depth + 1))
        elif op == "div":
            r = is_positive(a[0], depth + 1) and is_positive(a[1], depth + 1)
        elif op == "sqrt":
            r = is_positive(a[0], depth + 1)
        elif op == "abs":
            r = is_positive(a[0], depth + 1)
        elif op == "toreal":
            r = is_positive(a[0], depth + 1)
        elif op == "uf" and a[0] == "exp":
            r = True
    _SIGN_MEMO[k] = r
    return r


def is_nonneg(x, depth=0):
    if not isinstance(x, Term):
        return (not isinstance(x, bool)) and x >= 0
    if x.id in _NONNEG or x.id in _POS:
        return True
    k = ("n", x.id)
    if k in _SIGN_MEMO:
        return _SIGN_MEMO[k]
    r = False
    if depth < 40:
        op, a = x.op, x.args
        if op in ("sqrt", "abs"):
            r = True
        elif op == "mul":
            r = (a[0] is a[1]) or (is_nonneg(a[0], depth + 1) and is_nonneg(a[1], depth + 1))
        elif op == "add":
            r = is_nonneg(a[0], depth + 1) and is_nonneg(a[1], depth + 1)
        elif op == "div":
            r = is_nonneg(a[0], depth + 1) and is_positive(a[1], depth + 1)
        elif op == "toreal":
            r = is_nonneg(a[0], depth + 1)
        elif op == "uf" and a[0] == "exp":
            r = True
        elif op == "ite":
            r = is_nonneg(a[1], depth + 1) and is_nonneg(a[2], depth + 1)
    _SIGN_MEMO[k] = r
    return r


def n_terms():
    return _NEXT[0] - 1


def _k(a):
    if isinstance(a, Term):
        return a.id
    if isinstance(a, bool):
        return ("b", a)
    if isinstance(a, int):
        return ("i", a)
    if isinstance(a, Fraction):
        return ("q", a.numerator, a.denominator)
    if isinstance(a, str):
        return ("s", a)
    if isinstance(a, tuple):
        return ("t",) + tuple(_k(x) for x in a)
    raise TypeError(f"bad term arg {a!r}")


def mk(op, args, sort):
    key = (op, sort) + tuple(_k(a) for a in args)
    t = _TAB.get(key)
    if t is None:
        t = Term(op, tuple(args), sort, _NEXT[0])
        _NEXT[0] += 1
        _TAB[key] = t
    return t


def is_term(x):
    return isinstance(x, Term)


def is_const(x):
    return not isinstance(x, Term)


def sort_of(x):
    if isinstance(x, Term):
        return x.sort
    if isinstance(x, bool):
        return B
    if isinstance(x, int):
        return Z
    if isinstance(x, Fraction):
        return R
    if isinstance(x, float):
        return R
    raise TypeError(f"no sort for {x!r}")


def const(x, sort=None):
    """normalise a python scalar to a cell constant of the given sort"""
    if isinstance(x, Term):
        return x
    if sort is None:
        sort = sort_of(x)
    if sort == B:
        return bool(x)
    if sort == Z:
        if isinstance(x, float):
            return int(x)
        if isinstance(x, Fraction):
            return int(x)  # trunc
        return int(x)
    if isinstance(x, bool):
        return Fraction(int(x))
    if isinstance(x, float):
        if math.isnan(x) or math.isinf(x):
            raise NonFinite(x)
        return Fraction(x)
    return Fraction(x)


class NonFinite(Exception):
    pass


def var(name, sort=R):
    return mk("var", (name,), sort)


# ---------------------------------------------------------------- coercions
def to_real(x):
    s = sort_of(x)
    if s == R:
        return const(x, R) if is_const(x) else x
    if s == Z:
        if is_const(x):
            return Fraction(x)
        return mk("toreal", (x,), R)
    # bool
    if is_const(x):
        return Fraction(int(x))
    return ite(x, Fraction(1), Fraction(0))


def to_int(x):
    s = sort_of(x)
    if s == Z:
        return x
    if s == B:
        if is_const(x):
            return int(x)
        return ite(x, 1, 0)
    if is_const(x):
        return int(const(x, R))  # python int() truncates toward zero, like torch
    if x.op == "toreal":
        return x.args[0]
    return mk("trunc", (x,), Z)


def to_bool(x):
    s = sort_of(x)
    if s == B:
        return x
    if is_const(x):
        return x != 0
    return ne(x, 0 if s == Z else Fraction(0))


def coerce(x, sort):
    if sort == R:
        return to_real(x)
    if sort == Z:
        return to_int(x)
    return to_bool(x)


def _num2(a, b):
    """bring two arithmetic operands to a common numeric sort"""
    sa, sb = sort_of(a), sort_of(b)
    if sa == B:
        a = to_int(a)
        sa = Z
    if sb == B:
        b = to_int(b)
        sb = Z
    if sa == Z and sb == Z:
        return a, b, Z
    return to_real(a), to_real(b), R


# ---------------------------------------------------------------- arithmetic
def add(a, b):
    a, b, s = _num2(a, b)
    ca, cb = is_const(a), is_const(b)
    if ca and cb:
        return a + b
    if ca and a == 0:
        return b
    if cb and b == 0:
        return a
    if ca:
        a, b = b, a  # constant last
    elif not cb and a.id > b.id:
        a, b = b, a
    if is_term(b) and b.op == "neg" and b.args[0] is a:
        return Fraction(0) if s == R else 0
    if is_term(a) and a.op == "neg" and a.args[0] is b:
        return Fraction(0) if s == R else 0
    return mk("add", (a, b), s)


def neg(a):
    if sort_of(a) == B:
        a = to_int(a)
    if is_const(a):
        return -a
    if a.op == "neg":
        return a.args[0]
    return mk("neg", (a,), a.sort)


def sub(a, b):
    return add(a, neg(b))


def mul(a, b):
    a, b, s = _num2(a, b)
    ca, cb = is_const(a), is_const(b)
    if ca and cb:
        return a * b
    if ca:
        a, b = b, a
        ca, cb = cb, ca
    if cb:
        if b == 0:
            return b
        if b == 1:
            return a
        if b == -1:
            return neg(a)
    elif a.id > b.id:
        a, b = b, a
    if is_term(a) and a.op == "sqrt" and a is b:
        return a.args[0]
    return mk("mul", (a, b), s)


def div(a, b):
    """true division in R (definedness b != 0 is tracked by the engine)"""
    a, b = to_real(a), to_real(b)
    ca, cb = is_const(a), is_const(b)
    if cb:
        if b == 0:
            raise NonFinite("division by constant zero")
        if ca:
            return a / b
        if b == 1:
            return a
        return mul(a, 1 / b)
    if ca and a == 0:
        return a
    if a is b:
        return Fraction(1)
    if is_term(a) and a.op == "mul":
        # (x*b)/b -> x   (sound where the division is defined; definedness b != 0 is tracked separately)
        if a.args[1] is b:
            return a.args[0]
        if a.args[0] is b:
            return a.args[1]
    return mk("div", (a, b), R)


def floordiv(a, b):
    """floor division on Z (python semantics)"""
    a, b = to_int(a), to_int(b)
    if is_const(a) and is_const(b):
        return a // b
    if is_const(b) and b == 1:
        return a
    return mk("floordiv", (a, b), Z)


def pymod(a, b):
    """python-style remainder on Z (sign of divisor)"""
    a, b = to_int(a), to_int(b)
    if is_const(a) and is_const(b):
        return a % b
    if is_const(b) and b == 1:
        return 0
    return mk("pymod", (a, b), Z)


def truncdiv(a, b):
    a, b = to_int(a), to_int(b)
    if is_const(a) and is_const(b):
        q = abs(a) // abs(b)
        return q if (a >= 0) == (b >= 0) else -q
    # trunc(a/b) = sign * floor(|a|/|b|)
    q = floordiv(absv(a), absv(b))
    same = eq(ge(a, 0), ge(b, 0))
    return ite(same, q, neg(q))


def cmod(a, b):
    """C-style fmod on Z (sign of dividend)"""
    a, b = to_int(a), to_int(b)
    if is_const(a) and is_const(b):
        return int(math.fmod(a, b))
    return sub(a, mul(truncdiv(a, b), b))


def sqrt(a):
    a = to_real(a)
    if is_const(a):
        if a < 0:
            raise NonFinite("sqrt of negative constant")
        n, d = a.numerator, a.denominator
        rn, rd = math.isqrt(n), math.isqrt(d)
        if rn * rn == n and rd * rd == d:
            return Fraction(rn, rd)
        # keep irrational constants as atoms: sqrt(2) etc.
        return mk("sqrt", (a,), R)
    if a.op == "mul" and a.args[0] is a.args[1]:
        return absv(a.args[0])
    return mk("sqrt", (a,), R)


def powi(a, k: int):
    """integer power by repeated multiplication"""
    if k == 0:
        return Fraction(1) if sort_of(a) == R else 1
    if k < 0:
        return div(Fraction(1), powi(a, -k))
    r = None
    base = a
    while k:
        if k & 1:
            r = base if r is None else mul(r, base)
        k >>= 1
        if k:
            base = mul(base, base)
    return r


def power(a, e):
    """a ** e for constant exponent e (int, or multiple of 1/2)"""
    e = Fraction(e)
    if e.denominator == 1:
        return powi(a, int(e))
    if e.denominator == 2:
        r = sqrt(a)
        return powi(r, int(e.numerator))
    if is_const(a):
        raise UnsupportedTerm(f"pow with exponent {e}")
    return uf(f"pow[{e}]", a)


class UnsupportedTerm(Exception):
    pass


def uf(name, *args):
    args = tuple(to_real(a) for a in args)
    if name == "log" and is_const(args[0]) and args[0] == 1:
        return Fraction(0)
    if name == "exp" and is_const(args[0]) and args[0] == 0:
        return Fraction(1)
    return mk("uf", (name,) + args, R)


def absv(a):
    if sort_of(a) == B:
        return to_int(a)
    if is_const(a):
        return abs(a)
    if a.op == "neg":
        return absv(a.args[0])
    if a.op == "abs" or a.op == "sqrt":
        return a
    if is_nonneg(a):
        return a
    return mk("abs", (a,), a.sort)


def sign(a):
    zero = Fraction(0) if sort_of(a) == R else 0
    one = Fraction(1) if sort_of(a) == R else 1
    if is_const(a):
        return one if a > 0 else (-one if a < 0 else zero)
    return ite(gt(a, zero), one, ite(lt(a, zero), -one, zero))


def maximum(a, b):
    a, b, _ = _num2(a, b)
    if is_const(a) and is_const(b):
        return max(a, b)
    if a is b:
        return a
    return ite(ge(a, b), a, b)


def minimum(a, b):
    a, b, _ = _num2(a, b)
    if is_const(a) and is_const(b):
        return min(a, b)
    if a is b:
        return a
    return ite(le(a, b), a, b)


# ---------------------------------------------------------------- predicates
_BOUNDS: dict = {}  # var term id -> (lo or None, hi or None): declared closed lower / open upper bounds


def declare_bounds(v, lo=None, hi=None):
    _BOUNDS[v.id] = (lo, hi)


def _bound_fold(op, a, b):
    """decide  a op b  from declared variable bounds / syntactic sign knowledge, when one side is a constant"""
    if is_const(a) and is_term(b):
        # c op b
        lo, hi = _BOUNDS.get(b.id, (None, None))
        if lo is None and is_positive(b):
            if (op == "lt" and a <= 0) or (op == "le" and a <= 0):
                return True
        if lo is None and is_nonneg(b) and op == "le" and a <= 0:
            return True
        if lo is not None:
            if op == "le" and a <= lo:
                return True
            if op == "lt" and a < lo:
                return True
        if hi is not None:
            if op in ("lt", "le") and a >= hi:
                return False
    elif is_term(a) and is_const(b):
        lo, hi = _BOUNDS.get(a.id, (None, None))
        if lo is None and is_positive(a) and b <= 0:
            return False
        if lo is None and is_nonneg(a) and op == "lt" and b <= 0:
            return False
        if lo is not None:
            if op == "lt" and b <= lo:
                return False
            if op == "le" and b < lo:
                return False
        if hi is not None:
            if op in ("lt", "le") and b >= hi:
                return True
    return None


def _cmp(op, pyop, a, b):
    a, b, _ = _num2(a, b)
    if is_const(a) and is_const(b):
        return pyop(a, b)
    r = _bound_fold(op, a, b)
    if r is not None:
        return r
    return mk(op, (a, b), B)


def lt(a, b):
    if a is b:
        return False
    return _cmp("lt", lambda x, y: x < y, a, b)


def le(a, b):
    if a is b:
        return True
    return _cmp("le", lambda x, y: x <= y, a, b)


def gt(a, b):
    return lt(b, a)


def ge(a, b):
    return le(b, a)


def eq(a, b):
    sa, sb = sort_of(a), sort_of(b)
    if sa == B and sb == B:
        if is_const(a) and is_const(b):
            return a == b
        if is_const(a):
            return b if a else lnot(b)
        if is_const(b):
            return a if b else lnot(a)
        if a is b:
            return True
        if a.id > b.id:
            a, b = b, a
        return mk("iff", (a, b), B)
    a, b, _ = _num2(a, b)
    if is_const(a) and is_const(b):
        return a == b
    if a is b:
        return True
    if is_term(a) and is_term(b) and a.id > b.id:
        a, b = b, a
    return mk("eq", (a, b), B)


def ne(a, b):
    return lnot(eq(a, b))


def lnot(a):
    a = to_bool(a)
    if is_const(a):
        return not a
    if a.op == "not":
        return a.args[0]
    return mk("not", (a,), B)


def land(a, b):
    a, b = to_bool(a), to_bool(b)
    if is_const(a):
        return b if a else False
    if is_const(b):
        return a if b else False
    if a is b:
        return a
    if a.id > b.id:
        a, b = b, a
    return mk("and", (a, b), B)


def lor(a, b):
    a, b = to_bool(a), to_bool(b)
    if is_const(a):
        return True if a else b
    if is_const(b):
        return True if b else a
    if a is b:
        return a
    if a.id > b.id:
        a, b = b, a
    return mk("or", (a, b), B)


def lxor(a, b):
    return lnot(eq(to_bool(a), to_bool(b)))


def ite(c, a, b):
    c = to_bool(c)
    if is_const(c):
        return a if c else b
    sa, sb = sort_of(a), sort_of(b)
    if sa != sb:
        if B in (sa, sb) and sa != sb:
            a, b, _ = _num2(a, b)
        else:
            a, b, _ = _num2(a, b)
    if is_const(a) and is_const(b) and a == b:
        return a
    if a is b:
        return a
    s = sort_of(a)
    if s == B:
        if is_const(a) and is_const(b):
            return c if a else lnot(c)
    return mk("ite", (c, a, b), s)


def conj(xs):
    r = True
    for x in xs:
        r = land(r, x)
    return r


def disj(xs):
    r = False
    for x in xs:
        r = lor(r, x)
    return r


# ---------------------------------------------------------------- traversal
def reachable(roots):
    """all Term nodes reachable from roots, sorted by id (children first)"""
    seen = {}
    stack = [r for r in roots if isinstance(r, Term)]
    while stack:
        t = stack.pop()
        if t.id in seen:
            continue
        seen[t.id] = t
        for a in t.args:
            if isinstance(a, Term) and a.id not in seen:
                stack.append(a)
    return [seen[i] for i in sorted(seen)]


def variables(roots):
    return [t for t in reachable(roots) if t.op in ("var", "avar")]


def show(t, limit=200):
    if not isinstance(t, Term):
        return str(t)
    out = []

    def rec(x, d):
        if not isinstance(x, Term):
            out.append(str(x))
            return
        if x.op == "var":
            out.append(x.args[0])
            return
        if d > 6 or sum(map(len, out)) > limit:
            out.append("…")
            return
        if x.op == "uf":
            out.append(x.args[0] + "(")
            args = x.args[1:]
        else:
            out.append(x.op + "(")
            args = x.args
        for i, a in enumerate(args):
            if i:
                out.append(",")
            rec(a, d + 1)
        out.append(")")

    rec(t, 0)
    return "".join(out)


# ---------------------------------------------------------------- evaluation
_UF_FLOAT = {
    "log": lambda x: math.log(x) if x > 0 else float("nan"),
    "exp": lambda x: math.exp(x) if x < 700 else float("inf"),
    "digamma": None,
}


def evalf(roots, env, memo=None):
    """float64 evaluation.  env: var-name -> number.  returns list aligned with roots"""
    memo = {} if memo is None else memo
    todo = [t for t in reachable([r for r in roots if isinstance(r, Term) and r.id not in memo])]
    for t in todo:
        if t.id in memo:
            continue
        memo[t.id] = _evalf_node(t, env, memo)
    return [memo[r.id] if isinstance(r, Term) else (r if isinstance(r, bool) else float(r)) for r in roots]


def _val(a, memo):
    if isinstance(a, Term):
        return memo[a.id]
    if isinstance(a, bool):
        return a
    if isinstance(a, Fraction):
        return float(a)
    return a


def _evalf_node(t, env, memo):
    op = t.op
    if op == "avar":
        return float(env[t.args[0]])
    if op == "var":
        v = env[t.args[0]]
        if t.sort == R:
            return float(v)
        if t.sort == Z:
            return int(v)
        return bool(v)
    a = [_val(x, memo) for x in t.args]
    try:
        if op == "add":
            return a[0] + a[1]
        if op == "mul":
            return a[0] * a[1]
        if op == "neg":
            return -a[0]
        if op == "div":
            return a[0] / a[1] if a[1] != 0 else float("nan")
        if op == "sqrt":
            return math.sqrt(a[0]) if a[0] >= 0 else float("nan")
        if op == "abs":
            return abs(a[0])
        if op == "toreal":
            return float(a[0])
        if op == "trunc":
            return int(a[0]) if a[0] == a[0] and abs(a[0]) != float("inf") else 0
        if op == "floordiv":
            return a[0] // a[1] if a[1] != 0 else 0
        if op == "pymod":
            return a[0] % a[1] if a[1] != 0 else 0
        if op == "lt":
            return a[0] < a[1]
        if op == "le":
            return a[0] <= a[1]
        if op == "eq":
            return a[0] == a[1]
        if op == "iff":
            return a[0] == a[1]
        if op == "not":
            return not a[0]
        if op == "and":
            return a[0] and a[1]
        if op == "or":
            return a[0] or a[1]
        if op == "ite":
            return a[1] if a[0] else a[2]
        if op == "uf":
            name = t.args[0]
            f = _UF_FLOAT.get(name)
            if f is None:
                if name.startswith("pow["):
                    e = float(Fraction(name[4:-1]))
                    return a[1] ** e if a[1] > 0 else float("nan")
                return float("nan")
            return f(*a[1:])
    except (OverflowError, ValueError, ZeroDivisionError):
        return float("nan")
    raise UnsupportedTerm(op)


def evalq(roots, env):
    """exact evaluation over Q; raises UnsupportedTerm on radicals / ufs with irrational values"""
    memo = {}
    for t in reachable([r for r in roots if isinstance(r, Term)]):
        op = t.op
        if op == "var":
            v = env[t.args[0]]
            memo[t.id] = Fraction(v) if t.sort == R else (int(v) if t.sort == Z else bool(v))
            continue
        a = [memo[x.id] if isinstance(x, Term) else x for x in t.args]
        if op == "add":
            v = a[0] + a[1]
        elif op == "mul":
            v = a[0] * a[1]
        elif op == "neg":
            v = -a[0]
        elif op == "div":
            if a[1] == 0:
                raise ZeroDivisionError
            v = Fraction(a[0]) / a[1]
        elif op == "sqrt":
            x = Fraction(a[0])
            if x < 0:
                raise UnsupportedTerm("sqrt<0")
            rn, rd = math.isqrt(x.numerator), math.isqrt(x.denominator)
            if rn * rn != x.numerator or rd * rd != x.denominator:
                raise UnsupportedTerm("irrational sqrt")
            v = Fraction(rn, rd)
        elif op == "abs":
            v = abs(a[0])
        elif op == "toreal":
            v = Fraction(a[0])
        elif op == "trunc":
            v = int(a[0])
        elif op == "floordiv":
            v = a[0] // a[1]
        elif op == "pymod":
            v = a[0] % a[1]
        elif op == "lt":
            v = a[0] < a[1]
        elif op == "le":
            v = a[0] <= a[1]
        elif op in ("eq", "iff"):
            v = a[0] == a[1]
        elif op == "not":
            v = not a[0]
        elif op == "and":
            v = a[0] and a[1]
        elif op == "or":
            v = a[0] or a[1]
        elif op == "ite":
            v = a[1] if a[0] else a[2]
        else:
            raise UnsupportedTerm(op)
        memo[t.id] = v
    return [memo[r.id] if isinstance(r, Term) else r for r in roots]


# ---------------------------------------------------------------- z3
class Z3Conv:
    """term -> z3 with memo; sqrt atoms and abs become fresh symbols + side constraints"""

    def __init__(self):
        import z3

        self.z3 = z3
        self.memo = {}
        self.side = []  # side constraints introduced by atoms
        self.vars = {}
        self.ufs = {}

    def const(self, c, sort=None):
        z3 = self.z3
        if isinstance(c, bool):
            return z3.BoolVal(c)
        if isinstance(c, int):
            return z3.IntVal(c)
        return z3.RealVal(str(c))

    def __call__(self, root):
        z3 = self.z3
        if not isinstance(root, Term):
            return self.const(root)
        memo = self.memo
        for t in reachable([root]):
            if t.id in memo:
                continue
            op = t.op
            if op == "var":
                name = t.args[0]
                v = z3.Real(name) if t.sort == R else (z3.Int(name) if t.sort == Z else z3.Bool(name))
                self.vars[name] = v
                memo[t.id] = v
                continue
            if op == "avar":
                name = t.args[0]
                v = z3.Real(name)
                self.vars[name] = v
                sq = t.args[1]
                self.side.append(v * v == (memo[sq.id] if isinstance(sq, Term) else self.const(sq)))
                memo[t.id] = v
                continue
            if op == "uf":
                name = t.args[0]
                ar = len(t.args) - 1
                f = self.ufs.get((name, ar))
                if f is None:
                    f = z3.Function("uf_" + name, *([z3.RealSort()] * (ar + 1)))
                    self.ufs[(name, ar)] = f
                memo[t.id] = f(*[memo[x.id] if isinstance(x, Term) else self.const(x) for x in t.args[1:]])
                continue
            a = [memo[x.id] if isinstance(x, Term) else self.const(x) for x in t.args]
            if op == "add":
                v = a[0] + a[1]
            elif op == "mul":
                v = a[0] * a[1]
            elif op == "neg":
                v = -a[0]
            elif op == "div":
                v = a[0] / a[1]
            elif op == "sqrt":
                v = z3.Real(f"sqrt!{t.id}")
                self.side += [v >= 0, v * v == a[0]]
            elif op == "abs":
                v = z3.If(a[0] >= 0, a[0], -a[0])
            elif op == "toreal":
                v = z3.ToReal(a[0])
            elif op == "trunc":
                v = z3.If(a[0] >= 0, z3.ToInt(a[0]), -z3.ToInt(-a[0]))
            elif op == "floordiv":
                # z3 div rounds so that remainder is non-negative; equals floor for positive divisor
                v = z3.If(a[1] > 0, a[0] / a[1], (-a[0]) / (-a[1]))
            elif op == "pymod":
                v = z3.If(a[1] > 0, a[0] % a[1], -((-a[0]) % (-a[1])))
            elif op == "lt":
                v = a[0] < a[1]
            elif op == "le":
                v = a[0] <= a[1]
            elif op in ("eq", "iff"):
                v = a[0] == a[1]
            elif op == "not":
                v = z3.Not(a[0])
            elif op == "and":
                v = z3.And(a[0], a[1])
            elif op == "or":
                v = z3.Or(a[0], a[1])
            elif op == "ite":
                v = z3.If(a[0], a[1], a[2])
            else:
                raise UnsupportedTerm(op)
            memo[t.id] = v
        return memo[root.id]


def evalmp(roots, env, dps=60):
    """high-precision evaluation (mpmath) used to tell an ill-conditioned float evaluation from an engine bug"""
    import mpmath

    mpmath.mp.dps = dps
    mpf = mpmath.mpf
    memo = {}
    for t in reachable([r for r in roots if isinstance(r, Term)]):
        op = t.op
        if op in ("var", "avar"):
            v = env[t.args[0]]
            memo[t.id] = v if isinstance(v, bool) else (mpf(v) if t.sort == R else int(v))
            continue
        a = []
        for x in t.args:
            if isinstance(x, Term):
                a.append(memo[x.id])
            elif isinstance(x, Fraction):
                a.append(mpf(x.numerator) / mpf(x.denominator))
            else:
                a.append(x)
        if op == "add":
            v = a[0] + a[1]
        elif op == "mul":
            v = a[0] * a[1]
        elif op == "neg":
            v = -a[0]
        elif op == "div":
            v = a[0] / a[1] if a[1] != 0 else mpmath.nan
        elif op == "sqrt":
            v = mpmath.sqrt(a[0]) if a[0] >= 0 else mpmath.nan
        elif op == "abs":
            v = abs(a[0])
        elif op == "toreal":
            v = mpf(a[0])
        elif op == "trunc":
            v = int(a[0])
        elif op == "floordiv":
            v = a[0] // a[1] if a[1] != 0 else 0
        elif op == "pymod":
            v = a[0] % a[1] if a[1] != 0 else 0
        elif op == "lt":
            v = a[0] < a[1]
        elif op == "le":
            v = a[0] <= a[1]
        elif op in ("eq", "iff"):
            v = a[0] == a[1]
        elif op == "not":
            v = not a[0]
        elif op == "and":
            v = a[0] and a[1]
        elif op == "or":
            v = a[0] or a[1]
        elif op == "ite":
            v = a[1] if a[0] else a[2]
        elif op == "uf":
            name = t.args[0]
            if name == "log":
                v = mpmath.log(a[1]) if a[1] > 0 else mpmath.nan
            elif name == "exp":
                v = mpmath.exp(a[1])
            else:
                v = mpmath.nan
        else:
            raise UnsupportedTerm(op)
        memo[t.id] = v
    out = []
    for r in roots:
        if isinstance(r, Term):
            out.append(memo[r.id])
        elif isinstance(r, Fraction):
            out.append(mpf(r.numerator) / mpf(r.denominator))
        else:
            out.append(r)
    return out
