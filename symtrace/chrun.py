"""Run CrossHair conditions in parallel (one process per condition, hard time limit), parse verdicts, replay
counterexamples by calling the real function concretely."""
from __future__ import annotations

import ast
import importlib
import os
import re
import subprocess
import sys
import time
from concurrent.futures import ThreadPoolExecutor

VERIF = os.path.dirname(os.path.dirname(os.path.abspath(__file__)))


def _line_of(path, fn):
    for i, l in enumerate(open(path), 1):
        if l.startswith(f"def {fn}("):
            return i
    raise KeyError(fn)


def run_condition(path, fn, per_condition_timeout, per_path_timeout=None):
    line = _line_of(path, fn) + 2
    cmd = [sys.executable, "-W", "ignore", "-m", "crosshair", "check", "--report_all", "--per_condition_timeout",
           str(per_condition_timeout)]
    if per_path_timeout:
        cmd += ["--per_path_timeout", str(per_path_timeout)]
    cmd.append(f"{path}:{line}")
    t0 = time.time()
    env = dict(os.environ, PYTHONPATH=VERIF + os.pathsep + os.environ.get("PYTHONPATH", ""), PYTHONWARNINGS="ignore")
    try:
        p = subprocess.run(cmd, capture_output=True, text=True, timeout=per_condition_timeout * 2 + 60, env=env, cwd=VERIF)
        out = p.stdout + p.stderr
    except subprocess.TimeoutExpired:
        out = "TIMEOUT"
    dt = time.time() - t0
    verdict, detail = "unknown", ""
    for l in out.splitlines():
        if "Confirmed over all paths" in l:
            verdict = "confirmed"
        elif "error:" in l and "when calling" in l:
            verdict, detail = "refuted", l.split("error:", 1)[1].strip()
        elif "Not confirmed" in l:
            verdict = "not_confirmed"
        elif "Unable to meet precondition" in l:
            verdict = "no_precondition"
        elif "error:" in l and verdict == "unknown":
            verdict, detail = "error", l.strip()[-300:]
    if verdict == "unknown":
        detail = out.strip()[-300:]
    return {"fn": fn, "verdict": verdict, "detail": detail, "seconds": round(dt, 2)}


def replay_call(modname, detail):
    """re-run the reported call concretely; returns (reproduced?, info)"""
    m = re.search(r"when calling (\w+)\((.*)\)(?: \(which|$)", detail)
    if not m:
        return False, "could not parse: " + detail
    fn, args = m.group(1), m.group(2)
    mod = importlib.import_module(modname)
    try:
        val = eval(f"mod.{fn}({args})", {"mod": mod, "float": float, "inf": float("inf"), "nan": float("nan")})  # noqa: S307
    except Exception as e:  # noqa: BLE001
        return True, f"raises {type(e).__name__}: {e}"
    return (val is False), f"{fn}({args}) -> {val}"


def run_all(path, modname, harnesses, twins, per_condition_timeout, jobs=16):
    with ThreadPoolExecutor(max_workers=jobs) as ex:
        res = list(ex.map(lambda f: run_condition(path, f, per_condition_timeout), harnesses))
        tw = list(ex.map(lambda f: run_condition(path, f, min(per_condition_timeout, 60)), twins))
    return res, tw
