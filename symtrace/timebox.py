"""nestable wall-clock budgets on SIGALRM (main thread of each worker process)"""
import signal
import time
from contextlib import contextmanager


class Timeout(BaseException):
    pass


_stack = []


def _handler(signum, frame):
    now = time.time()
    # fire the innermost expired budget
    for i in range(len(_stack) - 1, -1, -1):
        deadline, exc = _stack[i]
        if now >= deadline - 1e-3:
            raise exc
    _rearm()


def _rearm():
    if not _stack:
        signal.setitimer(signal.ITIMER_REAL, 0)
        return
    nxt = min(d for d, _ in _stack)
    signal.setitimer(signal.ITIMER_REAL, max(nxt - time.time(), 0.01))


@contextmanager
def timebox(seconds, exc):
    try:
        signal.signal(signal.SIGALRM, _handler)
    except ValueError:  # not in main thread
        yield
        return
    _stack.append((time.time() + seconds, exc))
    _rearm()
    try:
        yield
    finally:
        _stack.pop()
        _rearm()
