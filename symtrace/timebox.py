"""nestable wall-clock budgets on SIGALRM (main thread of each worker process)"""
import signal
import time
from contextlib import contextmanager

_stack = []  # entries: [deadline, exception instance, active]


def _handler(signum, frame):
    now = time.time()
    for i in range(len(_stack) - 1, -1, -1):
        e = _stack[i]
        if e[2] and now >= e[0] - 1e-3:
            e[2] = False  # fire once
            raise e[1]
    _rearm()


def _rearm():
    live = [e[0] for e in _stack if e[2]]
    if not live:
        signal.setitimer(signal.ITIMER_REAL, 0)
        return
    signal.setitimer(signal.ITIMER_REAL, max(min(live) - time.time(), 0.01))


@contextmanager
def timebox(seconds, exc):
    try:
        signal.signal(signal.SIGALRM, _handler)
    except ValueError:  # not in main thread
        yield
        return
    e = [time.time() + seconds, exc, True]
    _stack.append(e)
    _rearm()
    try:
        yield
    finally:
        # a late alarm may interrupt this cleanup: swallow it and finish the cleanup
        for _ in range(5):
            try:
                e[2] = False
                if e in _stack:
                    _stack.remove(e)
                _rearm()
                break
            except BaseException as late:  # noqa: BLE001
                if late is not exc and not any(late is x[1] for x in _stack):
                    raise
                continue
