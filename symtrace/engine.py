"""symtrace engine: symbolic shadow execution of the real library's ATen op stream.

The unmodified /repo/linear_operator runs under this TorchDispatchMode.  Real
kernels execute on concrete *shadow* tensors (a witness point), so shapes,
strides, dtypes and aliasing are torch's own; every op is mirrored on a symbolic
store `storage -> flat object array of cells` (cells: Fraction/int/bool constants
or `terms.Term`).  A tensor's symbolic value is the strided view of its storage's
array, so view ops cost nothing and in-place/out= ops write through views.
"""
from __future__ import annotations

import functools
import itertools
import math
import sys
from fractions import Fraction

import numpy as np
import torch
from numpy.lib.stride_tricks import as_strided
from torch.utils._python_dispatch import TorchDispatchMode, _disable_current_modes
from torch.utils._pytree import tree_flatten, tree_map

from . import terms as T

import os as _os

REPO_ROOT = _os.environ.get("VERIF_REPO", "/repo").rstrip("/") + "/"  # seeds are tested from scratch worktrees via VERIF_REPO
REPO_PREFIX = REPO_ROOT + "linear_operator/"


class UnsupportedOp(Exception):
    pass


class EngineMismatch(Exception):
    """symbolic model of an op disagrees with the real kernel on the witness (engine bug)"""


class PathAbort(BaseException):
    """stop executing this path (infeasible prefix / cut region / budget)"""

    def __init__(self, reason):
        super().__init__(reason)
        self.reason = reason


FLOAT_DT = (torch.float64, torch.float32, torch.float16, torch.bfloat16)
INT_DT = (torch.int64, torch.int32, torch.int16, torch.int8, torch.uint8)


def sort_of_dtype(dt):
    if dt in FLOAT_DT:
        return T.R
    if dt == torch.bool:
        return T.B
    if dt in INT_DT:
        return T.Z
    if dt in (torch.complex64, torch.complex128):
        return "C"
    raise UnsupportedOp(f"dtype {dt}")


def oarr(x, shape=None):
    a = np.empty((), dtype=object)
    a[()] = x
    if shape is not None:
        a = np.broadcast_to(a, shape)
    return a


def as_obj(x):
    """force an object ndarray (frompyfunc returns bare scalars for 0-d)"""
    if isinstance(x, np.ndarray) and x.dtype == object:
        return x
    if isinstance(x, np.ndarray):
        return x.astype(object)
    return oarr(x)


def U(f, nin):
    g = np.frompyfunc(f, nin, 1)

    def h(*a):
        return as_obj(g(*a))

    return h


u_add, u_sub, u_mul, u_div = U(T.add, 2), U(T.sub, 2), U(T.mul, 2), U(T.div, 2)
u_neg, u_abs, u_sqrt, u_sign = U(T.neg, 1), U(T.absv, 1), U(T.sqrt, 1), U(T.sign, 1)
u_lt, u_le, u_gt, u_ge, u_eq, u_ne = U(T.lt, 2), U(T.le, 2), U(T.gt, 2), U(T.ge, 2), U(T.eq, 2), U(T.ne, 2)
u_and, u_or, u_not, u_xor = U(T.land, 2), U(T.lor, 2), U(T.lnot, 1), U(T.lxor, 2)
u_ite = U(T.ite, 3)
u_max, u_min = U(T.maximum, 2), U(T.minimum, 2)
u_toreal, u_toint, u_tobool = U(T.to_real, 1), U(T.to_int, 1), U(T.to_bool, 1)


def u_coerce(a, sort):
    return {T.R: u_toreal, T.Z: u_toint, T.B: u_tobool}[sort](a)


def reduce_dims(a, dims, keepdim, f):
    """reduce object array over dims with binary f"""
    a = as_obj(a)
    if a.ndim == 0:
        return a
    if dims is None or (isinstance(dims, (list, tuple)) and len(dims) == 0):
        dims = list(range(a.ndim))
    if isinstance(dims, int):
        dims = [dims]
    dims = sorted({d % a.ndim for d in dims}, reverse=True)
    uf = U(f, 2)
    r = a
    for d in dims:
        n = r.shape[d]
        if n == 0:
            raise UnsupportedOp("reduction over empty dim")
        acc = np.take(r, 0, axis=d)
        for i in range(1, n):
            acc = uf(acc, np.take(r, i, axis=d))
        r = as_obj(acc)
        if keepdim:
            r = np.expand_dims(r, d)
    return r


def bind(func, args, kwargs):
    """normalise a call to name -> value using the op schema (with defaults)"""
    sch = func._schema
    out = {}
    for i, a in enumerate(sch.arguments):
        if i < len(args):
            out[a.name] = args[i]
        elif a.name in kwargs:
            out[a.name] = kwargs[a.name]
        elif a.has_default_value():
            out[a.name] = a.default_value
        else:
            out[a.name] = None
    return out


def written_args(func):
    return [a.name for a in func._schema.arguments if a.alias_info is not None and a.alias_info.is_write]


class Engine(TorchDispatchMode):
    def __init__(self, witness=None, prefix=(), seed=0, crosscheck=True, trace_functions=True, cut_sites=(), floor_cut=False,
                 range_mode="assume", item_whitelist=(), symfloat_sites=()):
        super().__init__()
        self.store = {}
        self.keep = []
        self.env = {}  # var name -> concrete witness value (float/int/bool)
        self.witness = dict(witness or {})
        self.rng = np.random.RandomState(seed)
        self.prefix = list(prefix)
        self.decisions = []  # chosen option index per choice point
        self.choice_log = []  # (path_len_before, options, chosen, site)
        self.path = []  # B terms assumed/decided along this path
        self.defined = []  # definedness side conditions (den != 0, radicand >= 0 ...)
        self.cuts = []  # generic-case cuts taken (site, term)
        self.owned = {}  # storage key -> leaf name (caller-owned)
        self.leaves = {}  # name -> dict(tensor, cells)
        self.writes = []  # mutation events on caller-owned storage
        self.ops = {}  # op name -> count (symbolically mirrored)
        self.functions = set()
        self.crosscheck = crosscheck
        self.diverged = False
        self.tainted = []
        self.trace_functions = trace_functions
        self.cut_sites = tuple(cut_sites)
        self.floor_cut = bool(floor_cut)  # eigenvalue floors clamp(min=c), 0 < c <= 1e-6, assumed not triggered
        self.range_mode = range_mode  # "assume" | "fork"
        self.nfresh = 0
        self.sparse = {}  # id(sparse tensor) -> (indices tensor, values tensor, size)
        self.spectral = {}  # storage key of complex tensor -> Spectral record
        self.registered_chol = []  # (A_cells 2-D.., L tensor)
        self.registered_eigh = []
        self.registered_qr = []
        self.rng_draws = []
        self.rng_queue = []
        self.rng_shapes = []
        self.n_checked_ops = 0
        self.max_ops = 400000
        self.cstore = {}  # complex storages: key -> (re flat array, im flat array)
        self.strict_crosscheck = True
        self.item_whitelist = tuple(item_whitelist)
        self.symfloat_sites = tuple(symfloat_sites)  # functions whose float .item() results stay symbolic in comparisons
        self.mismatches = 0
        self.stub_log = []
        self.tie_flips = 0
        self.n_inplace_writes = 0
        self.n_owned_write_checks = 0
        self.illconditioned = 0
        self.folded_decisions = 0
        self.track_constants = True
        self.registered_svd = []

    # ------------------------------------------------------------ storage model
    @staticmethod
    def key(t):
        return t.untyped_storage()._cdata

    def has(self, t):
        return isinstance(t, torch.Tensor) and t.layout == torch.strided and not t.is_complex() and self.key(t) in self.store

    def view(self, t):
        buf = self.store[self.key(t)]
        return as_strided(buf[t.storage_offset():], shape=tuple(t.shape), strides=tuple(k * 8 for k in t.stride()),
                          writeable=True)

    def lift(self, t):
        """cells of a concrete tensor"""
        with _disable_current_modes():
            td = t.detach()
            if td.layout != torch.strided:
                raise UnsupportedOp("lift of non-strided tensor")
            vals = td.reshape(-1).tolist()
        sort = sort_of_dtype(t.dtype)
        a = np.empty(len(vals), dtype=object)
        for i, v in enumerate(vals):
            try:
                a[i] = T.const(v, sort)
            except T.NonFinite:
                a[i] = self.fresh_var("nonfinite", sort, 0.0)
        return a.reshape(tuple(t.shape))

    def sym(self, t):
        if isinstance(t, torch.Tensor) and t.is_complex():
            raise UnsupportedOp("complex tensor in a real-valued op model")
        if not isinstance(t, torch.Tensor):
            if isinstance(t, (bool, int)):
                return oarr(t)
            if isinstance(t, float):
                return oarr(T.const(t, T.R))
            if isinstance(t, complex):
                raise UnsupportedOp("complex scalar")
            return oarr(t)
        if self.has(t):
            return self.view(t)
        return self.lift(t)

    def alloc(self, t):
        nel = max(t.untyped_storage().nbytes() // t.element_size(), 1)
        buf = np.empty(nel, dtype=object)
        zero = T.const(0, sort_of_dtype(t.dtype))
        buf[:] = [zero] * nel
        self.store[self.key(t)] = buf
        self.keep.append(t)

    def promote(self, t):
        """give a concrete tensor's storage a symbolic buffer holding its current concrete content"""
        nel = max(t.untyped_storage().nbytes() // t.element_size(), 1)
        with _disable_current_modes():
            flat = torch.empty(0, dtype=t.dtype).set_(t.untyped_storage(), 0, (nel,), (1,))
            vals = flat.tolist()
        sort = sort_of_dtype(t.dtype)
        buf = np.empty(nel, dtype=object)
        for i, v in enumerate(vals):
            try:
                buf[i] = T.const(v, sort)
            except T.NonFinite:
                buf[i] = self.fresh_var("nonfinite", sort, 0.0)
        self.store[self.key(t)] = buf
        self.keep.append(t)

    def new(self, t, vals):
        """bind a fresh output tensor to symbolic values"""
        self.alloc(t)
        sort = sort_of_dtype(t.dtype)
        vals = u_coerce(as_obj(vals), sort)
        if vals.shape != tuple(t.shape):
            if vals.size == t.numel():
                vals = vals.reshape(tuple(t.shape))
            else:
                vals = np.broadcast_to(vals, tuple(t.shape))
        if t.numel():
            self.view(t)[...] = vals

    def write(self, t, vals, site="?"):
        """in-place / out= write through the view"""
        if not self.has(t):
            # promote the concrete buffer: the real kernel already ran, but it only touched the written region, so
            # lifting the WHOLE storage now gives the right content everywhere else (the region is overwritten below)
            self.promote(t)
        sort = sort_of_dtype(t.dtype)
        vals = u_coerce(np.array(as_obj(vals), dtype=object, copy=True), sort)
        shape = tuple(t.shape)
        if vals.shape != shape:
            if vals.size == t.numel() and vals.ndim != len(shape):
                vals = vals.reshape(shape)
            else:
                vals = np.broadcast_to(vals, shape)
        k = self.key(t)
        self.n_inplace_writes += 1
        if k in self.owned and t.numel():
            self.n_owned_write_checks += 1
            old = np.array(self.view(t), dtype=object, copy=True)
            changed = [(o, n) for o, n in zip(old.reshape(-1), np.asarray(vals, dtype=object).reshape(-1)) if not _same_cell(o, n)]
            if changed:
                self.writes.append({"leaf": self.owned[k], "site": site, "where": self.where(), "changed": changed[:8],
                                    "n_changed": len(changed)})
        if t.numel():
            self.view(t)[...] = vals

    # ------------------------------------------------------------ variables / leaves
    def fresh_var(self, base, sort, default):
        self.nfresh += 1
        name = f"{base}!{self.nfresh}"
        self.env[name] = self.witness.get(name, default)
        return T.var(name, sort)

    def _witness_values(self, name, shape, sampler):
        n = int(np.prod(shape)) if len(shape) else 1
        vals = []
        for i in range(n):
            nm = f"{name}[{i}]" if len(shape) else name
            if nm in self.witness:
                vals.append(self.witness[nm])
            else:
                vals.append(sampler(i))
        return vals

    def leaf(self, name, shape, dtype=torch.float64, kind="real", lo=None, hi=None, positive=False, nonneg=False,
             tril=False, triu=False, posdiag=False, owned=True, requires_grad=False, mask=None, values=None,
             distinct=False, ascending=False):
        """create a symbolic leaf tensor (and its concrete shadow at the witness point)"""
        shape = tuple(shape)
        if name in self.leaves:
            raise RuntimeError(f"harness bug: duplicate leaf name {name!r}")
        n = int(np.prod(shape)) if len(shape) else 1
        sort = {"real": T.R, "int": T.Z, "bool": T.B}[kind]
        rng = self.rng
        cells = np.empty(n, dtype=object)
        vals = []
        idx = list(np.ndindex(*shape)) if len(shape) else [()]
        used = set()
        for i, ix in enumerate(idx):
            nm = f"{name}[{','.join(map(str, ix))}]" if len(shape) else name
            structural_zero = False
            if (tril or triu) and len(ix) >= 2:
                r, c = ix[-2], ix[-1]
                structural_zero = (tril and c > r) or (triu and c < r)
            if mask is not None and not mask[ix]:
                structural_zero = True
            if structural_zero:
                cells[i] = T.const(0, sort)
                vals.append(0)
                continue
            if values is not None:
                v0 = values[ix] if len(shape) else values
                cells[i] = T.const(v0, sort)
                vals.append(v0)
                continue
            v = T.var(nm, sort)
            cells[i] = v
            diag = len(ix) >= 2 and ix[-1] == ix[-2]
            pos = positive or (posdiag and diag)
            # NOTE: constraint terms are built BEFORE the sign / bound knowledge is declared (afterwards the smart
            # constructors would fold them to True and the solver would never see them)
            cons = []
            if pos:
                cons.append(T.gt(v, 0))
            elif nonneg:
                cons.append(T.ge(v, 0))
            if lo is not None:
                cons.append(T.ge(v, lo))
            if hi is not None:
                cons.append(T.lt(v, hi))
            self.path.extend(cons)
            if pos or (kind == "real" and lo is not None and lo > 0):
                T.declare_positive(v)
            elif nonneg or (kind == "real" and lo is not None and lo >= 0):
                T.declare_nonneg(v)
            if kind == "int" and lo is not None and hi is not None:
                T.declare_range(nm, lo, hi)
            if kind == "real" and (lo is not None or hi is not None):
                T.declare_bounds(v, Fraction(lo) if lo is not None else None, Fraction(hi) if hi is not None else None)
            if nm in self.witness:
                w = self.witness[nm]
            elif kind == "real":
                # small dyadic rationals: exact in float, cheap as Fractions
                if pos:
                    w = float(rng.randint(4, 17)) / 8.0
                elif nonneg:
                    w = float(rng.randint(1, 17)) / 8.0
                else:
                    w = float(rng.randint(-16, 17)) / 8.0
                    if w == 0.0:
                        w = 0.375
                if lo is not None or hi is not None:
                    l_ = float(lo) if lo is not None else -2.0
                    h_ = float(hi) if hi is not None else l_ + 4.0
                    w = l_ + (h_ - l_) * float(rng.randint(1, 16)) / 16.0
            elif kind == "int":
                l_ = int(lo) if lo is not None else -3
                h_ = int(hi) if hi is not None else l_ + 7
                w = int(rng.randint(l_, h_))
                if distinct:
                    cand = [x for x in range(l_, h_) if x not in used]
                    w = int(cand[rng.randint(0, len(cand))])
                    used.add(w)
            else:
                w = bool(rng.randint(0, 2))
            if kind == "int" and distinct and nm in self.witness:
                used.add(int(w))
            self.env[nm] = w
            vals.append(w)
        cells = cells.reshape(shape)
        if distinct and kind == "int":
            flat = [c for c in cells.reshape(-1) if T.is_term(c)]
            for a, b in itertools.combinations(flat, 2):
                self.path.append(T.ne(a, b))
        if ascending:
            flat = list(cells.reshape(-1))
            for a, b in zip(flat, flat[1:]):
                self.path.append(T.le(a, b))
            # make the witness ascending as well
            order = sorted(vals)
            for c, w in zip(flat, order):
                if T.is_term(c):
                    self.env[c.args[0]] = w
            vals = order
        with _disable_current_modes():
            if kind == "bool":
                t = torch.tensor(vals, dtype=torch.bool).reshape(shape)
            elif kind == "int":
                t = torch.tensor(vals, dtype=dtype if dtype in INT_DT else torch.long).reshape(shape)
            else:
                t = torch.tensor(vals, dtype=torch.float64).reshape(shape).to(dtype)
            t = t.clone()
        self.alloc(t)
        if n:
            self.view(t)[...] = cells
        if owned:
            self.owned[self.key(t)] = name
        self.leaves[name] = {"tensor": t, "cells": cells, "kind": kind}
        if requires_grad:
            t.requires_grad_(True)
        return t

    def avar(self, name, square, value):
        """sign-free algebraic atom r with r*r == square (a term over other variables)"""
        t = T.mk("avar", (name, T.to_real(square)), T.R)
        self.env[name] = self.witness.get(name, value)
        return t

    def from_cells(self, cells, dtype=torch.float64, owned=False, name=None):
        """make a tensor whose symbolic value is `cells` and whose shadow is their witness value"""
        cells = as_obj(cells)
        flat = list(cells.reshape(-1))
        vals = T.evalf(flat, self.env)
        with _disable_current_modes():
            sort = sort_of_dtype(dtype)
            if sort == T.R:
                t = torch.tensor([float(v) for v in vals], dtype=torch.float64).reshape(cells.shape).to(dtype).clone()
            elif sort == T.Z:
                t = torch.tensor([int(v) for v in vals], dtype=dtype).reshape(cells.shape).clone()
            else:
                t = torch.tensor([bool(v) for v in vals], dtype=torch.bool).reshape(cells.shape).clone()
        self.alloc(t)
        if cells.size:
            self.view(t)[...] = u_coerce(cells, sort_of_dtype(dtype))
        if owned:
            self.owned[self.key(t)] = name or f"cells{len(self.owned)}"
        return t

    def fresh_symbolic(self, out, base, sort=None, record=None):
        """turn a freshly produced concrete tensor (RNG draw, uninitialised memory) into symbolic variables"""
        sort = sort or sort_of_dtype(out.dtype)
        if base.startswith("rng_"):
            self.nrng = getattr(self, "nrng", 0) + 1  # own counter: the replay names draws the same way
            base = f"{base}!{self.nrng}"
        else:
            self.nfresh += 1
            base = f"{base}!{self.nfresh}"
        n = out.numel()
        self.alloc(out)
        if n == 0:
            return
        with _disable_current_modes():
            flat = out.detach().reshape(-1).tolist() if out.is_contiguous() else out.detach().clone().reshape(-1).tolist()
        cells = np.empty(n, dtype=object)
        override = False
        for i in range(n):
            nm = f"{base}[{i}]"
            cells[i] = T.var(nm, sort)
            if nm in self.witness:
                self.env[nm] = self.witness[nm]
                override = True
            else:
                v = flat[i]
                if sort == T.R and (v != v or abs(v) == float("inf") or abs(v) > 1e6 or (v != 0 and abs(v) < 1e-6)):
                    v = 0.5 + 0.125 * (i % 5)
                    override = True
                self.env[nm] = v
        if override:
            with _disable_current_modes():
                vals = torch.tensor([self.env[f"{base}[{i}]"] for i in range(n)], dtype=torch.float64 if sort == T.R else out.dtype)
                out.detach().copy_(vals.reshape(out.shape).to(out.dtype))
        self.view(out)[...] = cells.reshape(tuple(out.shape))
        if record is not None:
            record.append((base, out))

    # ------------------------------------------------------------ choices (concolic forks)
    def where(self):
        f = sys._getframe(1)
        while f is not None:
            fn = f.f_code.co_filename
            if fn.startswith(REPO_PREFIX):
                return f"{fn[len(REPO_ROOT):]}:{f.f_lineno}:{f.f_code.co_name}"
            f = f.f_back
        return "harness"

    def choose(self, options, site):
        """options: list of (python value, B cell).  Picks per prefix or per witness; records the alternatives."""
        # constant options decide immediately
        live = [(v, c) for v, c in options if not (T.is_const(c) and not c)]
        for v, c in live:
            if T.is_const(c) and c:
                return v
        if not live:
            raise PathAbort("no feasible option at " + site)
        k = len(self.decisions)
        conds = [c for _, c in live]
        truth = T.evalf(conds, self.env)
        wit_choice = next((i for i, b in enumerate(truth) if b), None)
        if k < len(self.prefix):
            ch = self.prefix[k]
            if ch >= len(live):
                raise PathAbort("prefix/option mismatch at " + site)
            if wit_choice != ch:
                self.diverged = True
        else:
            if wit_choice is None:
                self.diverged = True
                wit_choice = 0
            ch = wit_choice
        self.choice_log.append({"k": k, "path_len": len(self.path), "conds": conds, "chosen": ch, "site": site,
                                "where": self.where()})
        self.decisions.append(ch)
        self.path.append(conds[ch])
        return live[ch][0]

    def choose_int(self, term, site):
        """a symbolic integer flowing into Python: follow the witness value, enumerate siblings lazily"""
        k = len(self.decisions)
        wv = int(T.evalf([term], self.env)[0])
        if k < len(self.prefix):
            _, v, excl = self.prefix[k]
            if wv != v:
                self.diverged = True
        else:
            v, excl = wv, ()
        self.choice_log.append({"k": k, "path_len": len(self.path), "kind": "int", "term": term, "value": v,
                                "excluded": tuple(excl), "site": site, "where": self.where()})
        self.decisions.append(("v", v, tuple(excl)))
        self.path.append(T.eq(term, v))
        return v

    def decide(self, cond, site):
        cond = T.to_bool(cond)
        if T.is_const(cond):
            return bool(cond)
        folded = self._fold_near_tie(cond)
        if folded is not None:
            return folded
        return self.choose([(True, cond), (False, T.lnot(cond))], site)

    def _fold_near_tie(self, cond):
        """a float comparison whose two sides agree to rounding at the witness may be an identity in R (e.g. a residual that
        is identically zero): decide it by normal form instead of by the rounded witness"""
        c = cond
        while T.is_term(c) and c.op == "not":
            c = c.args[0]
        if not (T.is_term(c) and c.op in ("lt", "le", "eq")):
            return None
        a, b = c.args
        if T.sort_of(a) != T.R and T.sort_of(b) != T.R:
            return None
        va, vb = T.evalf([a, b], self.env)
        if not (va == va and vb == vb) or abs(va - vb) > 1e-7 * (1.0 + abs(va) + abs(vb)):
            return None
        from .norm import path_fixed
        from .solve import norm_fold

        r = norm_fold(cond, path_fixed(self.path))
        if r is cond:
            return None
        self.folded_decisions += 1
        return bool(r)

    def assume(self, cond, why):
        cond = T.to_bool(cond)
        if T.is_const(cond):
            if not cond:
                raise PathAbort("assumption false: " + why)
            return
        ok = T.evalf([cond], self.env)[0]
        if not ok:
            raise PathAbort("witness violates assumption: " + why)
        self.path.append(cond)

    def require_defined(self, cond, why):
        cond = T.to_bool(cond)
        if T.is_const(cond):
            if not cond:
                raise PathAbort("undefined in R: " + why)
            return
        try:
            ok = T.evalf([cond], self.env)[0]
        except KeyError:
            ok = True
        if not ok:
            raise PathAbort("witness point lies outside the domain of definition: " + why)
        self.defined.append(cond)

    # ------------------------------------------------------------ dispatch
    def note_frames(self):
        f = sys._getframe(2)
        depth = 0
        while f is not None and depth < 80:
            code = f.f_code
            fn = code.co_filename
            if fn.startswith(REPO_PREFIX):
                self.functions.add(fn[len(REPO_ROOT):-3].replace("/", ".") + "." + getattr(code, "co_qualname", code.co_name))
            f = f.f_back
            depth += 1

    def in_cut_site(self):
        if not self.cut_sites:
            return None
        f = sys._getframe(2)
        depth = 0
        while f is not None and depth < 80:
            nm = f.f_code.co_name
            if nm in self.cut_sites:
                return nm
            f = f.f_back
            depth += 1
        return None

    def __torch_dispatch__(self, func, types, args=(), kwargs=None):
        kwargs = kwargs or {}
        from . import ops

        try:
            return ops.dispatch(self, func, args, kwargs)
        except BaseException as e:  # noqa
            # the TorchScript interpreter re-raises anything thrown by a handler as a bare RuntimeError: remember the
            # engine's own signals so that they can be restored (resurface())
            if isinstance(e, (PathAbort, UnsupportedOp, EngineMismatch, T.UnsupportedTerm, T.NonFinite)):
                self.pending_signal = e
            raise

    def resurface(self, exc):
        """if `exc` is TorchScript's wrapper around one of the engine's own signals, raise the signal instead"""
        sig = getattr(self, "pending_signal", None)
        if sig is not None and exc is not sig and isinstance(exc, RuntimeError) and "TorchScript" in str(exc):
            self.pending_signal = None
            raise sig


def _same_cell(a, b):
    if T.is_term(a) or T.is_term(b):
        return a is b
    return a == b and T.sort_of(a) == T.sort_of(b)


from torch.overrides import TorchFunctionMode  # noqa: E402


class SymFloat(float):
    """a Python float that remembers the real-sorted term it was read from: comparisons against numbers become recorded
    decisions of the engine (forks with path conditions) instead of silent concretisations; anything else it is used for
    (formatting, arithmetic) sees the witness value, and arithmetic taints the path"""

    def __new__(cls, v, term, eng):
        o = float.__new__(cls, v)
        o._t, o._e = term, eng
        return o

    def _other(self, other):
        if isinstance(other, SymFloat):
            return other._t
        if isinstance(other, bool) or not isinstance(other, (int, float)):
            return None
        return Fraction(other)

    def _cmp(self, mk, other):
        ot = self._other(other)
        if ot is None:
            return NotImplemented
        return self._e.decide(mk(self._t, ot), "symfloat:" + self._e.where())

    def __lt__(self, o):
        return self._cmp(T.lt, o)

    def __le__(self, o):
        return self._cmp(T.le, o)

    def __gt__(self, o):
        return self._cmp(T.gt, o)

    def __ge__(self, o):
        return self._cmp(T.ge, o)

    __hash__ = float.__hash__

    def _arith(name):
        def f(self, *a):
            self._e.tainted.append("arithmetic on a symbolic python float at " + self._e.where())
            return getattr(float, name)(float(self), *[float(x) if isinstance(x, SymFloat) else x for x in a])
        return f

    for _n in ("__add__", "__radd__", "__sub__", "__rsub__", "__mul__", "__rmul__", "__truediv__", "__rtruediv__", "__pow__", "__neg__",
               "__abs__"):
        locals()[_n] = _arith(_n)
    del _n, _arith


class PyLevelGuard(TorchFunctionMode):
    """Tensor.tolist() / .numpy() read memory directly and never reach the dispatcher: route them through .item() (which does)
    so that symbolic integers / booleans flowing into Python become recorded choices instead of silent concretisations."""

    def __init__(self, eng):
        super().__init__()
        self.eng = eng

    def _symbolic(self, t):
        eng = self.eng
        if not isinstance(t, torch.Tensor) or t.layout != torch.strided or t.is_complex() or not eng.has(t):
            return False
        return any(T.is_term(c) for c in eng.view(t).reshape(-1))

    def __torch_function__(self, func, types, args=(), kwargs=None):
        kwargs = kwargs or {}
        if func is torch.Tensor.tolist and args and self._symbolic(args[0]):
            t = args[0]

            def rec(x):
                if x.dim() == 0:
                    return x.item()
                return [rec(x[i]) for i in range(x.shape[0])]

            return rec(t)
        if func is torch.Tensor.item and args and self.eng.symfloat_sites and self._symbolic(args[0]) and args[0].numel() == 1 \
                and args[0].dtype.is_floating_point:
            eng = self.eng
            site = eng.where()
            if any(site.split(":")[-1] == w for w in eng.symfloat_sites):
                c = eng.view(args[0]).reshape(-1)[0]
                if T.is_term(c):
                    return SymFloat(float(T.evalf([c], eng.env)[0]), c, eng)
        if func in (torch.Tensor.numpy, torch.Tensor.__array__) and args and self._symbolic(args[0]):
            raise UnsupportedOp("Tensor.numpy() on symbolic data")
        return func(*args, **kwargs)
