"""Harness context, path exploration (concolic forks), replay of counterexamples."""
from __future__ import annotations

import hashlib
import json
import os
import sys
import time
import traceback
import warnings

import numpy as np
import torch
from torch.utils._python_dispatch import TorchDispatchMode, _disable_current_modes

from . import terms as T
from .engine import Engine, EngineMismatch, PathAbort, PyLevelGuard, UnsupportedOp, as_obj, sort_of_dtype, FLOAT_DT
from .solve import Verdict, discharge, feasible


class HarnessError(Exception):
    pass


class Obligation:
    __slots__ = ("label", "pairs", "meta")

    def __init__(self, label, pairs, meta=None):
        self.label = label
        self.pairs = pairs
        self.meta = meta or {}


class ConcreteViolation(Exception):
    """a violation observed directly on the real code at the witness (shape / dtype / exception type)"""

    def __init__(self, label, detail):
        super().__init__(f"{label}: {detail}")
        self.label = label
        self.detail = detail


class Ctx:
    """what a harness sees.  Symbolic mode: backed by an Engine.  Replay mode: plain tensors from a model."""

    def __init__(self, eng=None, model=None, params=None):
        self.eng = eng
        self.model = model
        self.symbolic = eng is not None
        self.params = params or {}
        self.obligations = []
        self.concrete = []  # concrete violations seen on this path (label, detail)
        self.notes = {}
        self.replay_failures = []
        self.replay_checked = 0
        self._rng_k = 0

    # ---- inputs
    def leaf(self, name, shape, **kw):
        if getattr(self, "grad_leaves", False) and kw.get("kind", "real") == "real" and "requires_grad" not in kw:
            # grad_subset: which of the operator's parameters are trainable ("all", or every other one starting at 0 / 1)
            k = self._grad_k = getattr(self, "_grad_k", -1) + 1
            sub = getattr(self, "grad_subset", None) or "all"
            kw["requires_grad"] = {"all": True, "skip_even": k % 2 == 1, "skip_odd": k % 2 == 0, "skip_first": k != 0}[sub]
        if self.symbolic:
            return self.eng.leaf(name, shape, **kw)
        t = replay_leaf(self.model, name, shape, **kw)
        self._leaf_orig = getattr(self, "_leaf_orig", {})
        self._leaf_orig[name] = (t, t.detach().clone())
        return t

    def free_mask(self, name, t):
        """boolean mask of the entries of leaf `name` that are free variables (not structural zeros / fixed values)"""
        if self.symbolic:
            cells = self.eng.leaves[name]["cells"]
            m = np.array([T.is_term(c) for c in cells.reshape(-1)], dtype=bool).reshape(cells.shape)
            self._masks = getattr(self, "_masks", {})
            self._masks[name] = m
            return torch.from_numpy(m)
        return torch.ones(tuple(t.shape), dtype=torch.bool) if not hasattr(self, "_replay_masks") else self._replay_masks[name]

    def grad_leaf_items(self):
        """(name, tensor) of every real leaf created so far that requires grad"""
        if self.symbolic:
            return [(n, d["tensor"]) for n, d in self.eng.leaves.items() if d["kind"] == "real" and d["tensor"].requires_grad]
        return [(n, t) for n, (t, _) in getattr(self, "_leaf_orig", {}).items() if t.dtype.is_floating_point and t.requires_grad]

    def same(self, a, b):
        """elementwise equality for use inside boolean oracles: exact in the symbolic run (reals), tolerance-based in the
        float64 replay (an exact float == would make such oracles vacuous there)"""
        if self.symbolic:
            return a == b
        b_t = b if isinstance(b, torch.Tensor) else torch.tensor(b, dtype=a.dtype)
        return (a - b_t).abs() <= 1e-9 * (1.0 + b_t.abs())

    def decided_true_in(self, funcname):
        """did a data-dependent branch inside `funcname` take its True side on this path?  (symbolic run only)"""
        if not self.symbolic:
            return False
        return any(ch["where"].endswith(":" + funcname) and "conds" in ch and ch["chosen"] == 0 for ch in self.eng.choice_log)

    def rng_inject(self, tensors):
        """the next random draws of the library (in call order) return these tensors instead of noise"""
        q = self.eng.rng_queue if self.symbolic else self._replay_rng.queue
        q.extend(tensors)

    def rng_shapes(self):
        """shapes of all float random draws made so far"""
        return list(self.eng.rng_shapes if self.symbolic else self._replay_rng.shapes)

    def shadow(self, t):
        """concrete value of a tensor at the current witness / replay point, without going through the symbolic mode"""
        with _disable_current_modes():
            return t.detach().clone()

    def assert_no_mutation(self, label):
        """no library operation so far may have changed a caller-owned leaf tensor (storage-level, any view)"""
        if self.symbolic:
            seen = getattr(self, "_writes_seen", 0)
            for w in self.eng.writes[seen:]:
                self.concrete.append((f"{label}:mutation:{w['leaf']}", f"written in place by {w['site']} at {w['where']} ({w['n_changed']} cells)"))
            self._writes_seen = len(self.eng.writes)
        else:
            for name, (t, orig) in getattr(self, "_leaf_orig", {}).items():
                same = torch.equal(t.detach(), orig) or bool(((t.detach() == orig) | (torch.isnan(t.detach()) & torch.isnan(orig))).all()) \
                    if t.dtype.is_floating_point else torch.equal(t.detach(), orig)
                if not same:
                    self.replay_failures.append({"label": f"{label}:mutation:{name}", "detail": "leaf tensor changed in place"})
                    self._leaf_orig[name] = (t, t.detach().clone())

    def const(self, data, dtype=torch.float64):
        return torch.tensor(data, dtype=dtype)

    def rotation2(self, name):
        """a 2x2 rotation Q = [[c, -s], [s, c]] with s free in (-0.95, 0.95) and c a sign-free algebraic atom, c^2 = 1 - s^2
        (rotations x column sign flips = all orthogonal 2x2; LAPACK's eigenvector signs are not observable anyway)"""
        import math
        if self.symbolic:
            eng = self.eng
            s_t = eng.leaf(name + "_s", (), lo=-0.9375, hi=0.9375)
            s_cell = eng.sym(s_t).reshape(-1)[0]
            sval = float(eng.env[name + "_s"])
            c_cell = eng.avar(name + "_c", T.sub(1, T.mul(s_cell, s_cell)), math.sqrt(max(1 - sval * sval, 0.0)))
            cells = np.empty((2, 2), dtype=object)
            cells[0, 0], cells[0, 1], cells[1, 0], cells[1, 1] = c_cell, T.neg(s_cell), s_cell, c_cell
            return eng.from_cells(cells)
        s = float(self.model.get(name + "_s", 0.6))
        c = float(self.model.get(name + "_c", math.sqrt(max(1 - s * s, 0.0))))
        c = math.copysign(math.sqrt(max(1 - s * s, 0.0)), c if c != 0 else 1.0)
        return torch.tensor([[c, -s], [s, c]], dtype=torch.float64)

    # ---- obligations
    def eq(self, a, b, label):
        """a, b: tensors that must be equal in value and shape"""
        if not isinstance(a, torch.Tensor) and hasattr(a, "to_dense"):
            a = a.to_dense()
        if not isinstance(b, torch.Tensor) and hasattr(b, "to_dense"):
            b = b.to_dense()
        if tuple(a.shape) != tuple(b.shape):
            self.fail(label + ":shape", f"shape {tuple(a.shape)} vs expected {tuple(b.shape)}")
            return
        if self.symbolic:
            A, B_ = self.eng.sym(a), self.eng.sym(b)
            sa, sb = sort_of_dtype(a.dtype), sort_of_dtype(b.dtype)
            pairs = list(zip(A.reshape(-1), B_.reshape(-1)))
            self.obligations.append(Obligation(label, pairs))
        else:
            self.replay_checked += 1
            a64, b64 = a.detach().to(torch.float64), b.detach().to(torch.float64)
            scale = max(1.0, float(b64.abs().max()) if b64.numel() else 1.0, float(a64.abs().max()) if a64.numel() else 1.0)
            bad = ~(torch.isfinite(a64) & torch.isfinite(b64)) | ((a64 - b64).abs() > 1e-6 * scale)
            if a64.numel() and bool(bad.any()):
                self.replay_failures.append({"label": label, "got": a64.reshape(-1).tolist()[:16], "expected": b64.reshape(-1).tolist()[:16]})

    def true(self, t, label):
        """t: bool tensor (or python bool) that must be all-true"""
        if isinstance(t, bool):
            if not t:
                self.fail(label, "python False")
            return
        if self.symbolic:
            A = self.eng.sym(t)
            self.obligations.append(Obligation(label, [(c, True) for c in A.reshape(-1)]))
        else:
            self.replay_checked += 1
            if not bool(t.all()):
                self.replay_failures.append({"label": label, "got": t.reshape(-1).tolist()[:16], "expected": "all true"})

    def fail(self, label, detail):
        """a violation visible on the concrete execution itself (shape, dtype, exception class)"""
        if self.symbolic:
            self.concrete.append((label, str(detail)))
        else:
            self.replay_failures.append({"label": label, "detail": str(detail)})

    def note(self, k, v):
        self.notes[k] = v

    def register_chol(self, A, L):
        if self.symbolic:
            self.eng.registered_chol.append((np.array(self.eng.sym(A), dtype=object, copy=True), L))

    def register_eigh(self, A, w, Q):
        if self.symbolic:
            self.eng.registered_eigh.append((np.array(self.eng.sym(A), dtype=object, copy=True), w, Q))

    def register_qr(self, A, Q, R_):
        if self.symbolic:
            self.eng.registered_qr.append((np.array(self.eng.sym(A), dtype=object, copy=True), Q, R_))


def leaf_names(name, shape):
    shape = tuple(shape)
    if not shape:
        return [((), name)]
    return [(ix, f"{name}[{','.join(map(str, ix))}]") for ix in np.ndindex(*shape)]


def replay_leaf(model, name, shape, dtype=torch.float64, kind="real", tril=False, triu=False, mask=None, values=None,
                requires_grad=False, **kw):
    shape = tuple(shape)
    if kind == "real":
        t = torch.zeros(shape, dtype=torch.float64)
    elif kind == "int":
        t = torch.zeros(shape, dtype=dtype if dtype in (torch.int64, torch.int32) else torch.long)
    else:
        t = torch.zeros(shape, dtype=torch.bool)
    for ix, nm in leaf_names(name, shape):
        if values is not None:
            v = values[ix] if shape else values
        elif nm in model:
            v = model[nm]
        else:
            v = 0
        if shape:
            t[ix] = v
        else:
            t.fill_(v)
    if kind == "real":
        t = t.to(dtype)
    t = t.clone()
    if requires_grad:
        t.requires_grad_(True)
    return t


class ReplayRNG(TorchDispatchMode):
    """replay only needs the random draws of the counterexample; everything else is the real code"""

    def __init__(self, model):
        super().__init__()
        self.model = model
        self.k = 0
        self.queue = []
        self.shapes = []

    def __torch_dispatch__(self, func, types, args=(), kwargs=None):
        from .ops import RNG_OPS, opname

        out = func(*args, **(kwargs or {}))
        name = opname(func)
        if name in RNG_OPS and name != "randperm":
            tgt = args[0] if name.endswith("_") else out
            if tgt.dtype in FLOAT_DT and self.queue:
                self.shapes.append(tuple(tgt.shape))
                inj = self.queue.pop(0)
                tgt.detach().copy_(inj.detach().reshape(tgt.shape).to(tgt.dtype))
            elif tgt.dtype in FLOAT_DT:
                self.shapes.append(tuple(tgt.shape))
                self.k += 1
                base = f"rng_{name}!{self.k}"
                vals = [self.model.get(f"{base}[{i}]") for i in range(tgt.numel())]
                if all(v is not None for v in vals) and vals:
                    tgt.detach().copy_(torch.tensor(vals, dtype=torch.float64).reshape(tgt.shape).to(tgt.dtype))
        return out


# ------------------------------------------------------------------ one path
class PathResult:
    def __init__(self):
        self.status = "ok"  # ok | abort | unsupported | mismatch | exception
        self.reason = None
        self.obligations = []
        self.concrete = []
        self.notes = {}
        self.engine = None
        self.seconds = 0.0
        self.tb = None


def run_path(harness, params, prefix, witness, seed, engine_opts=None, path_budget_s=120.0):
    from .timebox import timebox

    T.reset()
    eng = Engine(witness=witness, prefix=prefix, seed=seed, **(engine_opts or {}))
    ctx = Ctx(eng=eng, params=params)
    res = PathResult()
    res.engine = eng
    t0 = time.time()
    with warnings.catch_warnings():
        warnings.simplefilter("ignore")
        try:
            with timebox(path_budget_s, PathAbort(f"witness path exceeded the trace budget of {path_budget_s}s")):
                with PyLevelGuard(eng), eng:
                    try:
                        harness(ctx)
                    except RuntimeError as e:
                        eng.resurface(e)
                        raise
        except PathAbort as e:
            res.status, res.reason = "abort", e.reason
        except UnsupportedOp as e:
            res.status, res.reason = "unsupported", str(e)
            res.tb = traceback.format_exc(limit=12)
        except EngineMismatch as e:
            res.status, res.reason = "mismatch", str(e)
            res.tb = traceback.format_exc(limit=12)
        except (T.UnsupportedTerm, T.NonFinite) as e:
            res.status, res.reason = "unsupported", f"{type(e).__name__}: {e}"
            res.tb = traceback.format_exc(limit=12)
        except Exception as e:  # uncaught exception from harness or library: the harness decides what it means
            res.status, res.reason = "exception", f"{type(e).__name__}: {e}"
            res.tb = traceback.format_exc(limit=16)
    res.seconds = time.time() - t0
    res.obligations = ctx.obligations
    res.concrete = ctx.concrete
    res.notes = ctx.notes
    return res


def replay(harness, params, model):
    """re-run the harness against the real code WITHOUT the symbolic mode at the model's point"""
    ctx = Ctx(eng=None, model=model, params=params)
    err = None
    with warnings.catch_warnings():
        warnings.simplefilter("ignore")
        try:
            ctx._replay_rng = ReplayRNG(model)
            with ctx._replay_rng:
                harness(ctx)
        except Exception as e:
            err = f"{type(e).__name__}: {e}"
    return ctx, err


# ------------------------------------------------------------------ exploring all paths of one cell
def explore(harness, params, seed=0, timeout_s=10.0, max_paths=64, engine_opts=None, norm_first=False,
            on_exception="inconclusive", path_budget_s=60.0, on_nonreplay="error"):
    """returns a cell report (dict, JSON-able)"""
    t_start = time.time()
    queue = [((), {})]
    report = {"paths": 0, "obligations": 0, "proved": 0, "refuted": 0, "unknown": 0, "by_mode": {}, "queries": 0,
              "solver_s": 0.0, "violations": [], "inconclusive": [], "errors": [], "pruned_branches": 0,
              "unknown_branches": 0, "ops": {}, "functions": set(), "cuts": 0, "defined_assumed": 0, "writes": [],
              "samples": [], "notes": {}, "nontrivial": 0, "tainted": 0, "n_checked_ops": 0, "trace_s": 0.0,
              "max_paths_hit": False, "path_statuses": {}}
    while queue:
        if report["paths"] >= max_paths:
            report["max_paths_hit"] = True
            report["inconclusive"].append(f"path budget {max_paths} exhausted with {len(queue)} pending")
            break
        prefix, witness = queue.pop()
        pr = run_path(harness, params, prefix, witness, seed, engine_opts, path_budget_s=path_budget_s)
        eng = pr.engine
        report["paths"] += 1
        report["trace_s"] += pr.seconds
        report["path_statuses"][pr.status] = report["path_statuses"].get(pr.status, 0) + 1
        for k, v in eng.ops.items():
            report["ops"][k] = report["ops"].get(k, 0) + v
        report["functions"] |= eng.functions
        report["cuts"] += len(eng.cuts)
        report["defined_assumed"] += len(eng.defined)
        report["n_checked_ops"] += eng.n_checked_ops
        report["inplace_writes"] = report.get("inplace_writes", 0) + eng.n_inplace_writes
        report["owned_write_checks"] = report.get("owned_write_checks", 0) + eng.n_owned_write_checks
        report["paths_with_writes"] = report.get("paths_with_writes", 0) + (1 if eng.n_inplace_writes else 0)
        report["tie_flips"] = report.get("tie_flips", 0) + eng.tie_flips
        report["illconditioned"] = report.get("illconditioned", 0) + eng.illconditioned
        report["notes"].update(pr.notes)
        report["writes"] += [{k: (str(v) if k == "changed" else v) for k, v in w.items()} for w in eng.writes]
        if pr.status == "mismatch":
            report["errors"].append(pr.reason)
            continue
        if pr.status == "unsupported":
            report["inconclusive"].append(pr.reason)
        if pr.status == "exception":
            if on_exception == "error":
                report["errors"].append(pr.reason + "\n" + (pr.tb or ""))
            else:
                report["inconclusive"].append("uncaught " + pr.reason)
        if pr.status == "abort":
            report["notes"].setdefault("aborts", []).append(pr.reason)
            if pr.reason.startswith("witness"):
                report["inconclusive"].append("path not completed: " + pr.reason)
        tainted = bool(eng.tainted)
        if tainted:
            report["tainted"] += 1
        # concrete violations on this path: the witness is the counterexample; path feasibility is by construction
        for label, detail in pr.concrete:
            model = dict(eng.env)
            ok, info = confirm(harness, params, model, label)
            entry = {"label": label, "detail": detail, "mode": "CONCRETE", "model": model, "replayed": ok, "replay": info,
                     "prefix": list(map(str, eng.decisions))}
            if ok:
                report["violations"].append(entry)
            else:
                report["errors"].append(f"concrete violation did not replay: {label}: {detail} / {info}")
        # symbolic obligations
        if pr.status in ("ok", "abort", "exception", "unsupported"):
            for ob in pr.obligations:
                report["obligations"] += 1
                v = discharge(ob.pairs, eng.path, eng.defined, eng.env, timeout_s=timeout_s, seed=seed, norm_first=norm_first)
                report["queries"] += v.queries
                report["solver_s"] += v.seconds
                report["by_mode"][v.mode] = report["by_mode"].get(v.mode, 0) + 1
                if v.mode not in ("SYNTACTIC", "CONST"):
                    report["nontrivial"] += 1
                if len(report["samples"]) < 2 and v.mode not in ("SYNTACTIC",):
                    a, b = next(((a, b) for a, b in ob.pairs if a is not b), ob.pairs[0])
                    report["samples"].append({"label": ob.label, "lhs": T.show(a, 160), "rhs": T.show(b, 160), "verdict": v.status, "mode": v.mode})
                if v.status == "proved":
                    if tainted or eng.diverged:
                        report["unknown"] += 1
                        report["inconclusive"].append(f"{ob.label}: proved on a tainted/diverged path (not counted)")
                    else:
                        report["proved"] += 1
                elif v.status == "refuted":
                    ok, info = confirm(harness, params, v.model, ob.label)
                    entry = {"label": ob.label, "detail": v.detail, "mode": v.mode, "model": {k: v_ for k, v_ in v.model.items()},
                             "replayed": ok, "replay": info, "prefix": list(map(str, eng.decisions))}
                    if ok:
                        report["refuted"] += 1
                        report["violations"].append(entry)
                    elif on_nonreplay == "inconclusive":
                        # cells whose code under test contains by-design stabilisation (jitter on near-singular pivots): a real-valued
                        # counterexample on such a branch is within the float tolerance of the replay and proves nothing either way
                        report["unknown"] += 1
                        report["inconclusive"].append(f"{ob.label}: real-valued counterexample not reproduced within the replay tolerance")
                    else:
                        report["errors"].append(f"counterexample for {ob.label} did not replay on the real code: {info}")
                else:
                    report["unknown"] += 1
                    report["inconclusive"].append(f"{ob.label}: solver unknown {v.detail}")
        # schedule alternatives for decisions beyond the inherited prefix
        for ch in eng.choice_log:
            k = ch["k"]
            if ch.get("kind") == "int":
                if k < len(prefix) - 1:
                    continue
                tried = tuple(ch["excluded"]) + (ch["value"],)
                cond = T.conj([T.ne(ch["term"], x) for x in tried])
                st, env, mode = feasible(eng.path[: ch["path_len"]] + [cond], eng.env, timeout_s=timeout_s, seed=seed)
                report["queries"] += 1
                if st == "sat":
                    v2 = int(T.evalf([ch["term"]], env)[0])
                    queue.append((tuple(eng.decisions[:k]) + (("v", v2, tried),), env))
                elif st == "unsat":
                    report["pruned_branches"] += 1
                else:
                    report["unknown_branches"] += 1
                    report["inconclusive"].append(f"branch feasibility unknown at {ch['where']}")
                continue
            if k < len(prefix):
                continue
            for alt, c in enumerate(ch["conds"]):
                if alt == ch["chosen"]:
                    continue
                st, env, mode = feasible(eng.path[: ch["path_len"]] + [c], eng.env, timeout_s=timeout_s, seed=seed)
                report["queries"] += 1
                if st == "sat":
                    queue.append((tuple(eng.decisions[:k]) + (alt,), env))
                elif st == "unsat":
                    report["pruned_branches"] += 1
                else:
                    report["unknown_branches"] += 1
                    report["inconclusive"].append(f"branch feasibility unknown at {ch['where']} ({ch['site']})")
    report["functions"] = sorted(report["functions"])
    report["wall_s"] = time.time() - t_start
    return report


def confirm(harness, params, model, label):
    """replay a model on the real code; True iff some check (preferably the same label) fails there"""
    ctx, err = replay(harness, params, model)
    base = label.split(":")[0]
    same = [f for f in ctx.replay_failures if f["label"] == label or f["label"].split(":")[0] == base]
    if same:
        return True, {"failures": same[:3], "error": err}
    return False, {"failures": [], "other_failures": [f["label"] for f in ctx.replay_failures][:5], "error": err,
                   "checked": ctx.replay_checked}
