"""FFT by laziness: a spectrum is stored as the (complex) time-domain sequence it is the DFT of.

DFT(x) * DFT(y) = DFT(x (*) y) (circular convolution) and IDFT(DFT(z)) = z are exact over Q, so the
r2c -> pointwise complex mul -> c2c(inverse) -> .real pipeline of utils/toeplitz.py needs no twiddle factors.
Complex storages are kept as interleaved real arrays [re0, im0, re1, im1, ...] so view_as_real is a plain view.
"""
from __future__ import annotations

from fractions import Fraction

import numpy as np
import torch
from numpy.lib.stride_tricks import as_strided

from . import terms as T
from .engine import UnsupportedOp, as_obj, oarr, u_add, u_mul, u_sub
from .ops import op

ZERO = Fraction(0)


def calloc(eng, t):
    nel = max(t.untyped_storage().nbytes() // t.element_size(), 1)
    buf = np.empty(2 * nel, dtype=object)
    buf[:] = [ZERO] * (2 * nel)
    eng.store[eng.key(t)] = buf
    eng.keep.append(t)


def cview(eng, t):
    buf = eng.store[eng.key(t)]
    off = 2 * t.storage_offset()
    st = tuple(16 * k for k in t.stride())
    re = as_strided(buf[off:], shape=tuple(t.shape), strides=st, writeable=True)
    im = as_strided(buf[off + 1:], shape=tuple(t.shape), strides=st, writeable=True)
    return re, im


def chas(eng, t):
    return isinstance(t, torch.Tensor) and t.is_complex() and t.layout == torch.strided and eng.key(t) in eng.store


def spectral_axis(eng, t):
    rec = eng.spectral.get(eng.key(t))
    if rec is None:
        return None
    N, stride = rec
    cands = [d for d in range(t.dim()) if t.size(d) == N and t.stride(d) == stride]
    if not cands:
        raise UnsupportedOp("spectral tensor viewed without its transform axis")
    return cands[-1]


@op("_fft_r2c")
def _r2c(eng, b, func, out):
    x, dim, norm, onesided = b["self"], b["dim"], b["normalization"], b["onesided"]
    if onesided or len(dim) != 1 or norm != 0:
        raise UnsupportedOp(f"_fft_r2c onesided={onesided} dim={dim} norm={norm}")
    d = dim[0] % x.dim()
    calloc(eng, out)
    re, im = cview(eng, out)
    re[...] = eng.sym(x)
    eng.spectral[eng.key(out)] = (x.size(d), out.stride(d))
    return None


@op("_fft_c2c")
def _c2c(eng, b, func, out):
    x, dim, norm, forward = b["self"], b["dim"], b["normalization"], b["forward"]
    if len(dim) != 1 or not chas(eng, x):
        raise UnsupportedOp("_fft_c2c unsupported form (concrete complex input)")
    d = dim[0] % x.dim()
    N = x.size(d)
    re, im = cview(eng, x)
    ax = spectral_axis(eng, x)
    calloc(eng, out)
    ore, oim = cview(eng, out)
    if ax is not None and not forward:
        if ax != d:
            raise UnsupportedOp("inverse transform along a different axis")
        if norm == 2:
            s = Fraction(1)
        elif norm == 0:
            s = Fraction(N)
        else:
            raise UnsupportedOp("orthonormal fft normalisation")
        ore[...] = u_mul(re, oarr(s))
        oim[...] = u_mul(im, oarr(s))
        return None
    if ax is None and forward and norm == 0:
        ore[...] = re
        oim[...] = im
        eng.spectral[eng.key(out)] = (N, out.stride(d))
        return None
    raise UnsupportedOp("_fft_c2c: unsupported direction / nesting")


def complex_mul(eng, a, b_, out_t):
    """pointwise product of two complex tensors (both spectral along the same axis, or both direct)"""
    are, aim = cview(eng, a)
    bre, bim = cview(eng, b_)
    ax_a, ax_b = spectral_axis(eng, a), spectral_axis(eng, b_)
    shape = tuple(out_t.shape)
    are, aim = np.broadcast_to(are, shape), np.broadcast_to(aim, shape)
    bre, bim = np.broadcast_to(bre, shape), np.broadcast_to(bim, shape)
    if ax_a is None and ax_b is None:
        return u_sub(u_mul(are, bre), u_mul(aim, bim)), u_add(u_mul(are, bim), u_mul(aim, bre)), None
    if ax_a is None or ax_b is None:
        raise UnsupportedOp("product of a spectrum with a non-spectrum")
    # axes are given in each tensor's own dims; align to the broadcast result
    da = ax_a + (len(shape) - a.dim())
    db = ax_b + (len(shape) - b_.dim())
    if da != db:
        raise UnsupportedOp("spectral product along different axes")
    N = shape[da]
    A_re, A_im = np.moveaxis(are, da, -1), np.moveaxis(aim, da, -1)
    B_re, B_im = np.moveaxis(bre, da, -1), np.moveaxis(bim, da, -1)
    Z_re = np.empty(A_re.shape, dtype=object)
    Z_im = np.empty(A_re.shape, dtype=object)
    for t in range(N):
        acc_re, acc_im = None, None
        for s in range(N):
            k = (t - s) % N
            pr = u_sub(u_mul(A_re[..., s], B_re[..., k]), u_mul(A_im[..., s], B_im[..., k]))
            pi = u_add(u_mul(A_re[..., s], B_im[..., k]), u_mul(A_im[..., s], B_re[..., k]))
            acc_re = pr if acc_re is None else u_add(acc_re, pr)
            acc_im = pi if acc_im is None else u_add(acc_im, pi)
        Z_re[..., t], Z_im[..., t] = acc_re, acc_im
    return np.moveaxis(Z_re, -1, da), np.moveaxis(Z_im, -1, da), (N, da)
