"""ATen op semantics on symbolic cells.  `dispatch` is called for every op the library issues."""
from __future__ import annotations

import functools
import itertools
import math
from fractions import Fraction

import numpy as np
import torch
from torch.utils._python_dispatch import _disable_current_modes
from torch.utils._pytree import tree_flatten

from . import terms as T
from .engine import (EngineMismatch, PathAbort, UnsupportedOp, as_obj, bind, oarr, reduce_dims, sort_of_dtype,
                     u_abs, u_add, u_and, u_coerce, u_div, u_eq, u_ge, u_gt, u_ite, u_le, u_lt, u_max, u_min, u_mul,
                     u_ne, u_neg, u_not, u_or, u_sign, u_sqrt, u_sub, u_toint, u_toreal, u_xor, U, written_args,
                     FLOAT_DT, INT_DT)

HANDLERS = {}
INDEX_NAMES = {"index", "indices", "mask", "condition"}

RNG_OPS = {"randn", "rand", "randn_like", "rand_like", "normal_", "normal", "uniform_", "bernoulli", "bernoulli_",
           "randint", "randint_like", "randperm", "multinomial", "exponential_", "cauchy_", "geometric_", "log_normal_",
           "random_", "rrelu_with_noise", "poisson", "binomial"}
EMPTY_OPS = {"empty", "empty_like", "new_empty", "new_empty_strided", "empty_strided", "empty_permuted"}
PURE_FACTORIES = {"zeros", "ones", "full", "arange", "eye", "scalar_tensor", "linspace", "tril_indices", "triu_indices",
                  "zeros_like", "ones_like", "full_like", "new_zeros", "new_ones", "new_full", "lift_fresh"}
TEST_ONLY = {"allclose", "isclose"}


def op(*names):
    def deco(f):
        for n in names:
            HANDLERS[n] = f
        return f

    return deco


def opname(func):
    return func._schema.name.split("::")[1]


# ------------------------------------------------------------------ dispatch
def dispatch(eng, func, args, kwargs):
    name = opname(func)
    flat = tree_flatten((args, kwargs))[0]
    tens = [a for a in flat if isinstance(a, torch.Tensor)]
    for t in tens:
        if t.layout != torch.strided and id(t) not in eng.sparse and name not in ("_sparse_coo_tensor_with_dims_and_tensors",):
            pass
    anysym = any(eng.has(t) for t in tens) or any(id(t) in eng.sparse for t in tens) or any(
        t.is_complex() and eng.key(t) in eng.store for t in tens if t.layout == torch.strided)

    # data-dependent extraction to Python
    if name in ("_local_scalar_dense", "is_nonzero", "item") and anysym:
        return scalar_to_python(eng, func, args, kwargs)
    if name == "equal" and anysym:
        a, b = eng.sym(args[0]), eng.sym(args[1])
        if a.shape != b.shape:
            return False
        c = T.conj(list(u_eq(a, b).reshape(-1)))
        return eng.decide(c, "equal")
    if name == "allclose" and anysym and not kwargs.get("equal_nan", False):
        # torch.allclose has a documented real-valued meaning, |a - b| <= atol + rtol * |b| for every element: a recorded decision
        # (both outcomes are explored), so that library code branching on a tolerance comparison is followed instead of given up on
        a, b = eng.sym(args[0]), eng.sym(args[1])
        rtol = kwargs.get("rtol", args[2] if len(args) > 2 else 1e-05)
        atol = kwargs.get("atol", args[3] if len(args) > 3 else 1e-08)
        try:
            a, b = np.broadcast_arrays(a, b)
        except ValueError:
            raise UnsupportedOp("allclose on non-broadcastable symbolic operands")
        bound = u_add(eng.sym(float(atol)), u_mul(eng.sym(float(rtol)), u_abs(b)))
        c = T.conj(list(u_le(u_abs(u_sub(a, b)), bound).reshape(-1)))
        return eng.decide(c, "allclose")
    if name in TEST_ONLY and anysym:
        raise UnsupportedOp(f"{name} on symbolic data (tolerance comparison has no R semantics)")

    if name in ("_fft_r2c", "_fft_c2c", "_fft_c2r") and not anysym:
        anysym = True  # spectra are always tracked lazily (a concrete spectrum could not be multiplied with a symbolic one)
    if name in RNG_OPS:
        out = func(*args, **kwargs)
        if name == "randperm":
            return out  # concrete permutation (enumerated by harness seeds)
        tgt = out
        if name.endswith("_"):
            tgt = args[0]
            if eng.key(tgt) in eng.owned:
                eng.writes.append({"leaf": eng.owned[eng.key(tgt)], "site": str(func), "where": eng.where(),
                                   "changed": [("rng", "rng")], "n_changed": tgt.numel()})
        if tgt.dtype in FLOAT_DT:
            eng.rng_shapes.append(tuple(tgt.shape))
            if eng.rng_queue:
                # the harness prescribes this draw (a symbolic leaf or a unit vector): bind it instead of fresh variables
                inj = eng.rng_queue.pop(0)
                if inj.numel() != tgt.numel():
                    raise UnsupportedOp(f"injected noise of shape {tuple(inj.shape)} for a draw of shape {tuple(tgt.shape)}")
                cells = np.array(eng.sym(inj), dtype=object, copy=True).reshape(tuple(tgt.shape))
                with _disable_current_modes():
                    tgt.detach().copy_(inj.detach().reshape(tgt.shape).to(tgt.dtype))
                eng.alloc(tgt)
                eng.view(tgt)[...] = cells
            else:
                eng.fresh_symbolic(tgt, "rng_" + name, record=eng.rng_draws)
            count(eng, func)
        return out

    if name == "_linalg_check_errors" and anysym:
        info = eng.sym(args[0])
        bad = T.disj([T.ne(c, 0) for c in info.reshape(-1)])
        if eng.decide(bad, "_linalg_check_errors"):
            raise torch.linalg.LinAlgError("symtrace: linalg error (info != 0) " + str(args[1] if len(args) > 1 else ""))
        return None

    if not anysym and name not in PURE_FACTORIES and name not in EMPTY_OPS and eng.track_constants:
        # concrete float computations are mirrored too: a rounded constant (sqrt(2.5), 1/3, 0.1*3) fed into symbolic
        # arithmetic would otherwise break exact identities by one ulp
        if any(t.layout == torch.strided and t.dtype in FLOAT_DT and t.numel() <= 4096 for t in tens):
            anysym = True
    if anysym and eng.range_mode == "fork" and name in ("index", "_unsafe_index", "gather", "index_select", "take_along_dim"):
        # the real kernel's bounds check is a data-dependent branch: decide it BEFORE the kernel runs on the witness
        b0 = bind(func, args, kwargs)
        self_t = b0["self"]
        if name in ("index", "_unsafe_index"):
            for d, ix in enumerate(b0["indices"]):
                if isinstance(ix, torch.Tensor) and eng.has(ix) and ix.dtype != torch.bool:
                    range_guard(eng, eng.view(ix).reshape(-1), self_t.shape[d], True, name)
        else:
            ix = b0["index"]
            if isinstance(ix, torch.Tensor) and eng.has(ix):
                range_guard(eng, eng.view(ix).reshape(-1), self_t.shape[b0["dim"] % max(self_t.dim(), 1)], False, name)
    if anysym and func._schema.is_mutable and name not in METADATA_INPLACE:
        # an in-place / out= op is about to overwrite its destination: a still-concrete destination must be lifted
        # BEFORE the real kernel runs, otherwise its pre-op content (needed by e.g. add_) is gone
        b0 = bind(func, args, kwargs)
        for nm in written_args(func):
            tgt = b0.get(nm)
            if isinstance(tgt, torch.Tensor) and tgt.layout == torch.strided and not tgt.is_complex() and not eng.has(tgt) \
                    and tgt.untyped_storage().nbytes() // max(tgt.element_size(), 1) <= 65536:
                eng.promote(tgt)

    out = func(*args, **kwargs)
    if name in EMPTY_OPS:
        o = out
        if isinstance(o, torch.Tensor) and o.layout == torch.strided and o.dtype in FLOAT_DT and o.numel() <= 4096:
            eng.fresh_symbolic(o, "uninit")
        return out
    if not anysym:
        return out

    count(eng, func)
    outs = [o for o in tree_flatten(out)[0] if isinstance(o, torch.Tensor)]
    mutable = func._schema.is_mutable
    if not mutable and outs:
        inkeys = {eng.key(t) for t in tens if t.layout == torch.strided}
        if all(o.layout == torch.strided and eng.key(o) in inkeys for o in outs):
            return out  # pure view (or identity) : strides are the semantics

    if name in METADATA_INPLACE:
        return out
    h = HANDLERS.get(name)
    b = bind(func, args, kwargs)
    try:
        if any(t.is_complex() for t in tens if t.layout == torch.strided) and name in ("mul", "mul_"):
            res = _complex_mul_dispatch(eng, b, func, out)
        elif h is None:
            if name in PLUMB:
                res = plumb(eng, func, b)
            else:
                raise UnsupportedOp(str(func))
        else:
            res = h(eng, b, func, out)
    except (UnsupportedOp, EngineMismatch, T.UnsupportedTerm, T.NonFinite, IndexError):
        raise
    except Exception as e:  # a bug in a handler must never look like a library exception
        import traceback
        raise UnsupportedOp(f"engine handler failure in {func}: {type(e).__name__}: {e} :: {traceback.format_exc(limit=3)[-300:]}")
    if res is NotImplemented:
        raise UnsupportedOp(str(func))
    if res is None:
        return out  # handler bound outputs itself
    site = str(func)
    if mutable:
        w = written_args(func)
        if not isinstance(res, (tuple, list)):
            res = [res]
        if len(w) != len(res):
            raise UnsupportedOp(f"{func}: {len(w)} written args, {len(res)} results")
        for nm, r in zip(w, res):
            tgt = b[nm]
            pre_shape = r.shape if isinstance(r, np.ndarray) else ()
            if name in ("resize_", "resize_as_"):
                continue
            eng.write(tgt, r, site=site)
            check(eng, func, tgt, b)
    else:
        if isinstance(res, (tuple, list)):
            if len(res) != len(outs):
                raise UnsupportedOp(f"{func}: {len(outs)} outputs, {len(res)} results")
            for o, r in zip(outs, res):
                if r is not None:
                    eng.new(o, r)
                    check(eng, func, o, b)
        else:
            eng.new(outs[0], res)
            check(eng, func, outs[0], b)
    return out


COMPARISONS = {"lt", "le", "gt", "ge", "eq", "ne", "lt_", "le_", "gt_", "ge_", "eq_", "ne_"}
METADATA_INPLACE = {"squeeze_", "unsqueeze_", "transpose_", "t_", "as_strided_", "detach_", "swapaxes_", "swapdims_",
                    "requires_grad_", "rename_", "_coalesced_"}


def _complex_mul_dispatch(eng, b, func, out):
    from .fft import calloc, chas, complex_mul, cview

    a, o = b["self"], b["other"]
    if not (chas(eng, a) and chas(eng, o)):
        raise UnsupportedOp("complex mul with a non-symbolic / real operand")
    tgt = a if opname(func) == "mul_" else out
    zre, zim, spec = complex_mul(eng, a, o, tgt)
    if opname(func) != "mul_":
        calloc(eng, out)
    re, im = cview(eng, tgt)
    re[...] = zre
    im[...] = zim
    if spec is not None:
        N, d = spec
        eng.spectral[eng.key(tgt)] = (N, tgt.stride(d))
    return None


def count(eng, func):
    s = str(func)
    eng.ops[s] = eng.ops.get(s, 0) + 1
    if eng.trace_functions:
        eng.note_frames()
    if sum(eng.ops.values()) > eng.max_ops:
        raise PathAbort("op budget exceeded")


DIVISION_OPS = {"div": "other", "div_": "other", "true_divide": "other", "reciprocal": "self", "reciprocal_": "self", "rsqrt": "self",
                "rsqrt_": "self", "addcdiv": "tensor2", "addcdiv_": "tensor2"}


def check(eng, func, t, b=None):
    """translator validation: symbolic result evaluated at the witness vs the real kernel's output"""
    if not eng.crosscheck or eng.diverged or t.numel() == 0 or t.numel() > 512:
        return
    cells = list(eng.view(t).reshape(-1))
    with _disable_current_modes():
        real = t.detach().reshape(-1).tolist() if t.is_contiguous() else t.detach().clone().reshape(-1).tolist()
    got = T.evalf(cells, eng.env, eng.__dict__.setdefault("_evalmemo", {}))
    eng.n_checked_ops += 1
    if t.dtype in FLOAT_DT:
        tol32 = t.dtype != torch.float64
        scale = max([abs(x) for x in real if x == x and abs(x) != float("inf")] + [1.0])
        for i, (g, r) in enumerate(zip(got, real)):
            if g != g or r != r or abs(g) == float("inf") or abs(r) == float("inf"):
                eng.diverged = True  # non-finite at the witness: outside R semantics; this path can no longer confirm
                return
            if abs(g - r) > (2e-3 if tol32 else 1e-6) * scale:
                eng.mismatches = getattr(eng, "mismatches", 0) + 1
                # is the float evaluation itself ill-conditioned at this witness (catastrophic cancellation, 0/0 after a
                # Krylov breakdown)?  then neither float number means anything: stop cross-checking this path
                try:
                    hp = float(T.evalmp([cells[i]], eng.env)[0])
                except Exception:  # noqa: BLE001
                    hp = g
                if hp != hp or abs(hp - g) > (2e-3 if tol32 else 1e-6) * scale:
                    eng.crosscheck = False  # cross-checking is suspended for the rest of this path (recorded in the evidence)
                    eng.illconditioned += 1
                    return
                # a division by a (rounding-noise) tiny denominator, e.g. 0/0 after a Krylov breakdown: the real quotient is noise
                dn = DIVISION_OPS.get(opname(func))
                if dn is not None and b is not None and isinstance(b.get(dn), torch.Tensor) and b[dn] is not t:
                    with _disable_current_modes():
                        dmin = float(b[dn].detach().abs().min()) if b[dn].numel() else 1.0
                    if dmin < 1e-8:
                        eng.crosscheck = False
                        eng.illconditioned += 1
                        return
                if eng.strict_crosscheck:
                    raise EngineMismatch(f"{func}: cell {i}: symbolic {g} vs real {r} (scale {scale}) at {eng.where()}")
                eng.diverged = True
                return
    else:
        if t.dtype == torch.bool and opname(func) in COMPARISONS and any(bool(g) != bool(r) for g, r in zip(got, real)):
            # a float comparison at (or within rounding of) a tie: R-semantics decides; the shadow follows it
            with _disable_current_modes():
                t.detach().copy_(torch.tensor([bool(g) for g in got]).reshape(tuple(t.shape)))
            eng.tie_flips += 1
            return
        for i, (g, r) in enumerate(zip(got, real)):
            if (bool(g) != bool(r)) if t.dtype == torch.bool else (int(g) != int(r)):
                if eng.strict_crosscheck:
                    raise EngineMismatch(f"{func}: cell {i}: symbolic {g} vs real {r} at {eng.where()}")
                eng.diverged = True
                return


def scalar_to_python(eng, func, args, kwargs):
    t = args[0]
    name = opname(func)
    c = eng.sym(t).reshape(-1)[0]
    if T.is_const(c):
        if name == "is_nonzero":
            return bool(c != 0) if not isinstance(c, bool) else c
        if isinstance(c, Fraction):
            return float(c)
        return c
    s = T.sort_of(c)
    if s == T.B or name == "is_nonzero":
        return eng.decide(T.to_bool(c), name)
    if s == T.Z:
        return eng.choose_int(c, name)
    # symbolic real flowing into Python: cannot be followed
    with _disable_current_modes():
        v = t.detach().reshape(-1)[0].item()
    site = eng.where()
    if not any(site.split(":")[-1] == w or w in site for w in eng.item_whitelist):
        eng.tainted.append(site)
    return v


# ------------------------------------------------------------------ plumbing by the real kernel on cell ids
PLUMB = {"cat", "stack", "repeat", "flip", "roll", "tril", "triu", "diag_embed", "index_select", "gather", "index",
         "index_put", "index_put_", "scatter", "scatter_", "select_backward", "slice_backward", "diagonal_backward",
         "diagonal_scatter", "select_scatter", "slice_scatter", "constant_pad_nd", "clone", "contiguous", "expand_copy",
         "permute_copy", "masked_select", "take", "split_with_sizes_copy", "tril_", "triu_", "index_fill", "index_fill_",
         "repeat_interleave", "narrow_copy", "t_copy", "squeeze_copy", "unsqueeze_copy", "_unsafe_index", "unfold",
         "diag", "as_strided_scatter", "_unsafe_index_put", "index_copy", "index_copy_", "movedim", "unfold_backward",
         "take_along_dim", "rot90", "_reshape_alias_copy", "view_copy", "alias_copy", "detach_copy", "copy",
         "as_strided_copy", "diagonal_copy", "select_copy", "slice_copy", "transpose_copy", "unbind_copy", "split_copy"}


def symbolic_index_args(eng, func, b):
    r = []
    for a in func._schema.arguments:
        if a.name in INDEX_NAMES:
            v = b[a.name]
            vs = v if isinstance(v, (list, tuple)) else [v]
            for x in vs:
                if isinstance(x, torch.Tensor) and eng.has(x) and any(T.is_term(c) for c in eng.view(x).reshape(-1)):
                    r.append(x)  # constant-valued index tensors are served by the real kernel on the shadow
    return r


def plumb(eng, func, b, override=None):
    name = opname(func)
    if not _FORCE_CONCRETE_INDEX and symbolic_index_args(eng, func, b):
        return symbolic_index(eng, func, b)
    if name in ("index_put", "index_put_", "_unsafe_index_put") and b.get("accumulate"):
        return index_put_accumulate(eng, func, b)
    if name in ("scatter", "scatter_") and not isinstance(b.get("src"), torch.Tensor):
        return NotImplemented
    table = [None]

    def ids_for(t):
        cells = eng.sym(t)
        base = len(table)
        table.extend(cells.reshape(-1))
        return torch.arange(base, base + t.numel(), dtype=torch.int64).reshape(t.shape)

    newb = {}
    written = written_args(func)
    wt = {}
    with _disable_current_modes():
        for a in func._schema.arguments:
            v = b[a.name]
            if a.name in INDEX_NAMES or not str(a.type).startswith(("Tensor", "List[Tensor", "Optional[Tensor", "List[Optional[Tensor")):
                newb[a.name] = v
                continue
            if isinstance(v, torch.Tensor):
                newb[a.name] = ids_for(v)
                if a.name in written:
                    wt[a.name] = newb[a.name]
            elif isinstance(v, (list, tuple)):
                newb[a.name] = [ids_for(x) if isinstance(x, torch.Tensor) else x for x in v]
            else:
                newb[a.name] = v
        if override:
            newb.update(override)
        pos = []
        kw = {}
        for a in func._schema.arguments:
            if a.kwarg_only:
                if a.name in ("dtype", "memory_format", "layout", "device", "pin_memory"):
                    continue
                kw[a.name] = newb[a.name]
            else:
                pos.append(newb[a.name])
        res = func(*pos, **kw)
    tab = np.empty(len(table), dtype=object)
    for i, c in enumerate(table):
        tab[i] = c

    def cells_of(idt, like_dtype):
        zero = T.const(0, sort_of_dtype(like_dtype))
        tab[0] = zero
        arr = idt.detach().cpu().numpy()
        return tab[arr] if arr.size else np.empty(arr.shape, dtype=object)

    if func._schema.is_mutable:
        return [cells_of(wt[nm], b[nm].dtype) for nm in written]
    if isinstance(res, (tuple, list)):
        return [cells_of(r, r.dtype) for r in res]
    first = next(t for t in tree_flatten(b)[0] if isinstance(t, torch.Tensor) and t.dtype != torch.bool) if False else None
    # output sort: take from the value args (ids are int64, the real output dtype is known to the caller via `new`)
    vt = [v for v in tree_flatten([b[a.name] for a in func._schema.arguments if a.name not in INDEX_NAMES])[0]
          if isinstance(v, torch.Tensor)]
    return cells_of(res, vt[0].dtype)


def _sel(options, idx, n, wrap):
    """ite-chain selecting options[idx] for a symbolic (or constant) Z cell idx"""
    if T.is_const(idx):
        i = int(idx)
        if wrap and i < 0:
            i += n
        if not 0 <= i < n:
            raise PathAbort("constant index out of range")
        return options[i]
    r = options[n - 1]
    for v in range(n - 2, -1, -1):
        c = T.eq(idx, v)
        if wrap:
            c = T.lor(c, T.eq(idx, v - n))
        r = T.ite(c, options[v], r)
    return r


def range_guard(eng, idx_cells, n, wrap, site):
    """the real kernel raises IndexError outside [-n, n) (or [0, n)); model that as assumption or fork"""
    conds = []
    for c in idx_cells:
        if T.is_const(c):
            continue
        lo = -n if wrap else 0
        conds.append(T.land(T.ge(c, lo), T.lt(c, n)))
    if not conds:
        return
    allin = T.conj(conds)
    if eng.range_mode == "fork":
        ok = eng.decide(allin, "index-range:" + site)
        if not ok:
            raise IndexError("symtrace: index out of range (modelled kernel bounds check) at " + site)
    else:
        eng.assume(allin, "index in range at " + site)


def symbolic_index(eng, func, b):
    name = opname(func)
    if name == "gather" or name == "take_along_dim":
        src, dim, index = eng.sym(b["self"]), b["dim"], eng.sym(b["index"])
        dim = dim % src.ndim
        n = src.shape[dim]
        range_guard(eng, index.reshape(-1), n, False, name)
        out = np.empty(index.shape, dtype=object)
        for p in np.ndindex(*index.shape):
            opts = [src[p[:dim] + (v,) + p[dim + 1:]] for v in range(n)]
            out[p] = _sel(opts, index[p], n, False)
        return out
    if name == "index_select":
        src, dim, index = eng.sym(b["self"]), b["dim"], eng.sym(b["index"]).reshape(-1)
        dim = dim % max(src.ndim, 1)
        n = src.shape[dim]
        range_guard(eng, index, n, False, name)
        slices = []
        for i in index:
            opts = [as_obj(np.take(src, v, axis=dim)) for v in range(n)]
            cur = np.empty(opts[0].shape, dtype=object)
            for p in np.ndindex(*opts[0].shape):
                cur[p] = _sel([o[p] for o in opts], i, n, False)
            slices.append(cur)
        return np.stack(slices, axis=dim) if slices else np.empty((0,), dtype=object)
    if name in ("index", "_unsafe_index"):
        return index_tensor_symbolic(eng, func, b)
    if name in ("index_put", "index_put_", "_unsafe_index_put"):
        return index_put_symbolic(eng, func, b)
    if name in ("scatter", "scatter_"):
        return scatter_symbolic(eng, func, b)
    raise UnsupportedOp(f"{func} with symbolic index")


def index_tensor_symbolic(eng, func, b):
    """aten.index with symbolic index tensors: run the real kernel once per combination of candidate values"""
    self_t = b["self"]
    indices = list(b["indices"])
    src = eng.sym(self_t)
    symdims = [d for d, ix in enumerate(indices) if isinstance(ix, torch.Tensor) and eng.has(ix)]
    if any(indices[d].dtype == torch.bool for d in symdims):
        if not all(indices[d].dtype == torch.bool for d in symdims):
            raise UnsupportedOp("mixed symbolic boolean / integer index")
        for d in symdims:
            _decide_mask(eng, indices[d], "index-mask")
        if eng.diverged:
            raise PathAbort("witness inconsistent with the prescribed mask decisions")
        return _plumb_concrete_index(eng, func, b)
    sizes = {d: self_t.shape[d] for d in symdims}
    for d in symdims:
        range_guard(eng, eng.sym(indices[d]).reshape(-1), sizes[d], True, "index")
        if sizes[d] == 0:
            raise UnsupportedOp("index into empty dim")
    with _disable_current_modes():
        ids = torch.arange(1, self_t.numel() + 1, dtype=torch.int64).reshape(self_t.shape)
        conc = [ix.detach().clone() if isinstance(ix, torch.Tensor) else ix for ix in indices]
        # which element of each symbolic index tensor feeds each output position
        elem_maps = {}
        for d in symdims:
            L = indices[d].numel()
            fshape = list(self_t.shape)
            fshape[d] = max(L, 1)
            F = torch.arange(fshape[d], dtype=torch.int64).reshape([-1 if i == d else 1 for i in range(len(fshape))]).expand(fshape)
            alt = list(conc)
            alt[d] = torch.arange(L, dtype=torch.int64).reshape(indices[d].shape)
            for d2 in symdims:
                if d2 != d:
                    alt[d2] = torch.zeros_like(conc[d2])
            elem_maps[d] = func(F, alt).numpy()
        combos = {}
        for vals in itertools.product(*[range(sizes[d]) for d in symdims]):
            alt = list(conc)
            for d, v in zip(symdims, vals):
                alt[d] = torch.full_like(conc[d], v)
            combos[vals] = func(ids, alt).numpy()
    flat_src = np.empty(self_t.numel() + 1, dtype=object)
    flat_src[1:] = src.reshape(-1)
    idx_cells = {d: eng.sym(indices[d]).reshape(-1) for d in symdims}
    any_combo = next(iter(combos.values()))
    out = np.empty(any_combo.shape, dtype=object)

    def build(p, k, vals):
        if k == len(symdims):
            return flat_src[combos[tuple(vals)][p]]
        d = symdims[k]
        n = sizes[d]
        ic = idx_cells[d][elem_maps[d][p]]
        opts = [build(p, k + 1, vals + [v]) for v in range(n)]
        return _sel(opts, ic, n, True)

    for p in np.ndindex(*out.shape):
        out[p] = build(p, 0, [])
    return out


def _decide_mask(eng, t, site):
    """a symbolic boolean mask used as an index has a data-dependent result shape: decide every cell (fork)"""
    cells = eng.view(t)
    for p in np.ndindex(*cells.shape):
        c = cells[p]
        if T.is_term(c):
            eng.decide(c, site)


def index_put_symbolic(eng, func, b):
    self_t, indices, values = b["self"], list(b["indices"]), b["values"]
    sym = [ix for ix in indices if isinstance(ix, torch.Tensor) and eng.has(ix) and any(T.is_term(c) for c in eng.view(ix).reshape(-1))]
    if len(indices) == 1 and indices[0].dtype == torch.bool and tuple(indices[0].shape) == tuple(self_t.shape) and values.numel() == 1 \
            and not b.get("accumulate"):
        return u_ite(eng.sym(indices[0]), eng.sym(values).reshape(()), eng.sym(self_t))
    if all(ix.dtype == torch.bool for ix in sym):
        for ix in sym:
            _decide_mask(eng, ix, "index_put-mask")
        if eng.diverged:
            raise PathAbort("witness inconsistent with the prescribed mask decisions")
        return _plumb_concrete_index(eng, func, b)
    raise UnsupportedOp("index_put with symbolic integer index")


def _plumb_concrete_index(eng, func, b):
    """after all symbolic mask cells have been decided the shadow's mask is the mask: serve by the real kernel"""
    global _FORCE_CONCRETE_INDEX
    _FORCE_CONCRETE_INDEX = True
    try:
        return plumb(eng, func, b)
    finally:
        _FORCE_CONCRETE_INDEX = False


_FORCE_CONCRETE_INDEX = False


def scatter_symbolic(eng, func, b):
    raise UnsupportedOp("scatter with symbolic index")


@op("scatter_add", "scatter_add_")
def _scatter_add(eng, b, func, out):
    self_t, dim, index, src = b["self"], b["dim"], b["index"], b["src"]
    res = np.array(eng.sym(self_t), dtype=object, copy=True)
    S = eng.sym(src)
    if eng.has(index) and any(T.is_term(c) for c in eng.view(index).reshape(-1)):
        # symbolic destination: every candidate position receives  [idx == q] * src
        I = eng.sym(index)
        dim = dim % max(res.ndim, 1)
        nq = res.shape[dim]
        range_guard(eng, I.reshape(-1), nq, False, "scatter_add")
        for p in np.ndindex(*I.shape):
            for qv in range(nq):
                q = list(p)
                q[dim] = qv
                q = tuple(q)
                res[q] = T.add(res[q], T.ite(T.eq(I[p], qv), S[p], T.const(0, T.sort_of(S[p]))))
        return res
    with _disable_current_modes():
        idx = index.detach().cpu().numpy()
    dim = dim % max(res.ndim, 1)
    for p in np.ndindex(*idx.shape):
        q = list(p)
        q[dim] = int(idx[p])
        q = tuple(q)
        res[q] = T.add(res[q], S[p])
    return res


def index_put_accumulate(eng, func, b):
    """index_put(accumulate=True) with concrete indices: out = self + scatter-add of values"""
    self_t, indices, values = b["self"], b["indices"], b["values"]
    if any(isinstance(ix, torch.Tensor) and eng.has(ix) for ix in indices):
        raise UnsupportedOp("index_put accumulate with symbolic index")
    res = np.array(eng.sym(self_t), dtype=object, copy=True)
    with _disable_current_modes():
        ids = torch.arange(self_t.numel(), dtype=torch.int64).reshape(self_t.shape)
        tgt = torch.ops.aten.index.Tensor(ids, list(indices)).numpy()
    vals = np.broadcast_to(eng.sym(values), tgt.shape)
    flat = res.reshape(-1)
    for p in np.ndindex(*tgt.shape):
        flat[tgt[p]] = T.add(flat[tgt[p]], vals[p])
    return flat.reshape(res.shape)


# ------------------------------------------------------------------ pointwise
def _alpha(b):
    a = b.get("alpha", 1)
    return 1 if a is None else a


@op("add", "add_")
def _add(eng, b, func, out):
    o = eng.sym(b["other"])
    al = _alpha(b)
    if al != 1:
        o = u_mul(o, T.const(al, T.sort_of(al)) if not isinstance(al, float) else T.const(al, T.R))
    return u_add(eng.sym(b["self"]), o)


@op("sub", "sub_")
def _sub(eng, b, func, out):
    o = eng.sym(b["other"])
    al = _alpha(b)
    if al != 1:
        o = u_mul(o, T.const(al, T.R) if isinstance(al, float) else al)
    return u_sub(eng.sym(b["self"]), o)


@op("rsub")
def _rsub(eng, b, func, out):
    o = eng.sym(b["other"])
    al = _alpha(b)
    s = eng.sym(b["self"])
    if al != 1:
        s = u_mul(s, T.const(al, T.R) if isinstance(al, float) else al)
    return u_sub(o, s)


@op("mul", "mul_")
def _mul(eng, b, func, out):
    return u_mul(eng.sym(b["self"]), eng.sym(b["other"]))


def _definedness_div(eng, den, why):
    for c in as_obj(den).reshape(-1):
        if T.is_term(c) and not T.is_positive(c):
            eng.require_defined(T.ne(c, 0), why)


@op("div", "div_", "true_divide")
def _div(eng, b, func, out):
    a, o = eng.sym(b["self"]), eng.sym(b["other"])
    mode = b.get("rounding_mode")
    target = out if not func._schema.is_mutable else (b.get("out") if b.get("out") is not None else b["self"])
    osort = sort_of_dtype(target.dtype)
    if mode is None:
        _definedness_div(eng, o, "div")
        return u_div(a, o)
    if osort != T.Z:
        raise UnsupportedOp(f"div rounding_mode={mode} on reals")
    if mode == "floor":
        return U(T.floordiv, 2)(a, o)
    if mode == "trunc":
        return U(T.truncdiv, 2)(a, o)
    raise UnsupportedOp(f"div mode {mode}")


@op("floor_divide", "floor_divide_")
def _floor_divide(eng, b, func, out):
    a, o = eng.sym(b["self"]), eng.sym(b["other"])
    if sort_of_dtype(out.dtype) != T.Z:
        raise UnsupportedOp("floor_divide on reals")
    return U(T.floordiv, 2)(a, o)


@op("remainder", "remainder_")
def _remainder(eng, b, func, out):
    if sort_of_dtype(out.dtype) != T.Z:
        raise UnsupportedOp("remainder on reals")
    return U(T.pymod, 2)(eng.sym(b["self"]), eng.sym(b["other"]))


@op("fmod", "fmod_")
def _fmod(eng, b, func, out):
    if sort_of_dtype(out.dtype) != T.Z:
        raise UnsupportedOp("fmod on reals")
    return U(T.cmod, 2)(eng.sym(b["self"]), eng.sym(b["other"]))


@op("neg", "neg_", "negative")
def _neg(eng, b, func, out):
    return u_neg(eng.sym(b["self"]))


@op("abs", "abs_")
def _abs(eng, b, func, out):
    return u_abs(eng.sym(b["self"]))


@op("sign", "sgn", "sign_")
def _sign(eng, b, func, out):
    return u_sign(eng.sym(b["self"]))


@op("reciprocal", "reciprocal_")
def _recip(eng, b, func, out):
    a = eng.sym(b["self"])
    _definedness_div(eng, a, "reciprocal")
    return u_div(oarr(Fraction(1)), a)


def _definedness_sqrt(eng, a, why):
    for c in as_obj(a).reshape(-1):
        if T.is_term(c) and not T.is_nonneg(c):
            eng.require_defined(T.ge(c, 0), why)


@op("sqrt", "sqrt_")
def _sqrt(eng, b, func, out):
    a = u_toreal(eng.sym(b["self"]))
    _definedness_sqrt(eng, a, "sqrt")
    return u_sqrt(a)


@op("rsqrt", "rsqrt_")
def _rsqrt(eng, b, func, out):
    a = u_toreal(eng.sym(b["self"]))
    _definedness_sqrt(eng, a, "rsqrt")
    r = u_sqrt(a)
    _definedness_div(eng, r, "rsqrt")
    return u_div(oarr(Fraction(1)), r)


@op("square", "square_")
def _square(eng, b, func, out):
    a = eng.sym(b["self"])
    return u_mul(a, a)


@op("pow", "pow_")
def _pow(eng, b, func, out):
    base, e = b["self"], b["exponent"]
    if isinstance(e, torch.Tensor):
        if eng.has(e):
            raise UnsupportedOp("pow with symbolic exponent")
        with _disable_current_modes():
            ev = e.detach().reshape(-1).tolist()
        if len(set(ev)) != 1:
            raise UnsupportedOp("pow with tensor exponent")
        e = ev[0]
    ef = Fraction(e).limit_denominator(1 << 20)
    if float(ef) != float(e):
        raise UnsupportedOp(f"pow exponent {e}")
    a = eng.sym(base)
    if not isinstance(base, torch.Tensor):
        raise UnsupportedOp("pow scalar base")
    if ef.denominator == 2:
        _definedness_sqrt(eng, a, "pow")
    if ef < 0:
        _definedness_div(eng, a, "pow")
    return U(lambda x: T.power(x, ef), 1)(a)


@op("exp", "exp_")
def _exp(eng, b, func, out):
    return U(lambda x: T.uf("exp", x), 1)(eng.sym(b["self"]))


@op("log", "log_")
def _log(eng, b, func, out):
    a = eng.sym(b["self"])
    for c in as_obj(a).reshape(-1):
        if T.is_term(c) and not T.is_positive(c):
            eng.require_defined(T.gt(c, 0), "log")
    return U(lambda x: T.uf("log", x), 1)(a)


@op("addcmul", "addcmul_")
def _addcmul(eng, b, func, out):
    v = b.get("value", 1)
    p = u_mul(eng.sym(b["tensor1"]), eng.sym(b["tensor2"]))
    if v != 1:
        p = u_mul(p, T.const(v, T.R) if isinstance(v, float) else v)
    return u_add(eng.sym(b["self"]), p)


@op("addcdiv", "addcdiv_")
def _addcdiv(eng, b, func, out):
    v = b.get("value", 1)
    d = eng.sym(b["tensor2"])
    _definedness_div(eng, d, "addcdiv")
    p = u_div(eng.sym(b["tensor1"]), d)
    if v != 1:
        p = u_mul(p, T.const(v, T.R) if isinstance(v, float) else v)
    return u_add(eng.sym(b["self"]), p)


@op("lerp", "lerp_")
def _lerp(eng, b, func, out):
    s, e, w = eng.sym(b["self"]), eng.sym(b["end"]), eng.sym(b["weight"])
    return u_add(s, u_mul(w, u_sub(e, s)))


@op("lt", "lt_")
def _lt(eng, b, func, out):
    return u_lt(eng.sym(b["self"]), eng.sym(b["other"]))


@op("le", "le_")
def _le(eng, b, func, out):
    return u_le(eng.sym(b["self"]), eng.sym(b["other"]))


@op("gt", "gt_")
def _gt(eng, b, func, out):
    return u_gt(eng.sym(b["self"]), eng.sym(b["other"]))


@op("ge", "ge_")
def _ge(eng, b, func, out):
    return u_ge(eng.sym(b["self"]), eng.sym(b["other"]))


@op("eq", "eq_")
def _eq(eng, b, func, out):
    return u_eq(eng.sym(b["self"]), eng.sym(b["other"]))


@op("ne", "ne_")
def _ne(eng, b, func, out):
    return u_ne(eng.sym(b["self"]), eng.sym(b["other"]))


@op("logical_not", "logical_not_")
def _lnot(eng, b, func, out):
    return u_not(eng.sym(b["self"]))


@op("bitwise_not", "bitwise_not_")
def _bnot(eng, b, func, out):
    if b["self"].dtype != torch.bool:
        raise UnsupportedOp("bitwise_not on ints")
    return u_not(eng.sym(b["self"]))


def _boolonly(b):
    for k in ("self", "other"):
        v = b[k]
        if isinstance(v, torch.Tensor) and v.dtype != torch.bool:
            raise UnsupportedOp("bitwise op on ints")


@op("logical_and", "logical_and_")
def _land(eng, b, func, out):
    return u_and(eng.sym(b["self"]), eng.sym(b["other"]))


@op("logical_or", "logical_or_")
def _lor(eng, b, func, out):
    return u_or(eng.sym(b["self"]), eng.sym(b["other"]))


@op("bitwise_and", "bitwise_and_", "__and__", "__iand__")
def _band(eng, b, func, out):
    _boolonly(b)
    return u_and(eng.sym(b["self"]), eng.sym(b["other"]))


@op("bitwise_or", "bitwise_or_", "__or__", "__ior__")
def _bor(eng, b, func, out):
    _boolonly(b)
    return u_or(eng.sym(b["self"]), eng.sym(b["other"]))


@op("bitwise_xor", "bitwise_xor_", "logical_xor", "__xor__")
def _bxor(eng, b, func, out):
    _boolonly(b)
    return u_xor(eng.sym(b["self"]), eng.sym(b["other"]))


@op("isnan", "isinf")
def _isnan(eng, b, func, out):
    # R semantics: every symbolic real is finite
    return np.broadcast_to(oarr(False), tuple(out.shape))


@op("isfinite")
def _isfinite(eng, b, func, out):
    return np.broadcast_to(oarr(True), tuple(out.shape))


@op("where")
def _where(eng, b, func, out):
    if "self" not in b or b.get("other") is None and b.get("self") is None:
        return NotImplemented
    return u_ite(eng.sym(b["condition"]), eng.sym(b["self"]), eng.sym(b["other"]))


def _mask_ite(eng, mask, val, base, site):
    """masked fill.  In a generic-case cut site symbolic masks are assumed False (recorded)"""
    mask = np.broadcast_to(as_obj(mask), base.shape)
    cut = eng.in_cut_site()
    if cut is not None:
        syms = {c.id: c for c in mask.reshape(-1) if T.is_term(c)}
        decided = {}
        for c in syms.values():
            folded = eng._fold_near_tie(c)
            if folded is not None:
                # the compared quantity is identically zero in R (e.g. the residual of a column that has converged exactly):
                # the mask is a constant, not a data-dependent guard
                decided[c.id] = folded
                continue
            if _semantic_threshold(c):
                # a comparison against a sizeable caller-chosen threshold (stop_updating_after = 0.5, ...) is a semantic
                # decision of the algorithm, not a safe-division guard: fork on it
                decided[c.id] = eng.decide(c, f"mask:{cut}")
                continue
            eng.assume(T.lnot(c), f"generic-case cut: mask false in {cut}: {T.show(c, 120)}")
            eng.cuts.append((cut, site, T.show(c, 80)))
        mask = U(lambda c: (decided.get(c.id, False) if T.is_term(c) else c), 1)(mask)
    return u_ite(mask, val, base)


def _semantic_threshold(c):
    while T.is_term(c) and c.op == "not":
        c = c.args[0]
    if not (T.is_term(c) and c.op in ("lt", "le")):
        return False
    for a in c.args:
        if T.is_const(a) and not isinstance(a, bool) and abs(a) > Fraction(1, 10 ** 6):
            return True
    return False


@op("masked_fill", "masked_fill_")
def _masked_fill(eng, b, func, out):
    base = eng.sym(b["self"])
    val = eng.sym(b["value"])
    return _mask_ite(eng, eng.sym(b["mask"]), val, base, "masked_fill")


@op("masked_scatter", "masked_scatter_")
def _masked_scatter(eng, b, func, out):
    return NotImplemented


@op("clamp_min", "clamp_min_")
def _clamp_min(eng, b, func, out):
    x, mn = eng.sym(b["self"]), eng.sym(b["min"])
    cut = eng.in_cut_site()
    if cut is not None and mn.size == 1 and T.is_const(mn.reshape(-1)[0]) and 0 <= mn.reshape(-1)[0] <= Fraction(1, 10 ** 6):
        # safe-division clamp (x.clamp_min_(eps)) inside a generic-case cut site: assume it is not triggered
        m0 = mn.reshape(-1)[0]
        for c in as_obj(x).reshape(-1):
            if T.is_term(c):
                eng.assume(T.ge(c, m0), f"generic-case cut: clamp_min not triggered in {cut}")
                eng.cuts.append((cut, "clamp_min", T.show(c, 60)))
        return x
    if _floor_cut(eng, x, mn):
        return x
    return u_max(x, mn)


def _floor_cut(eng, x, mn):
    """numerical floors (`evals.clamp_min(1e-7)`): with the engine's floor_cut option the floor is assumed not to be hit -
    the claim is then about operators whose clamped quantities are >= the floor (recorded per path)"""
    if not getattr(eng, "floor_cut", False) or mn is None:
        return False
    mn = as_obj(mn)
    if mn.size != 1:
        return False
    m0 = mn.reshape(-1)[0]
    if not (T.is_const(m0) and 0 < m0 <= Fraction(1, 10 ** 6)):
        return False
    for c in as_obj(x).reshape(-1):
        if T.is_term(c):
            eng.assume(T.ge(c, m0), "numerical floor clamp(min=%s) not triggered" % float(m0))
            eng.cuts.append(("floor", "clamp", T.show(c, 60)))
    return True


@op("clamp_max", "clamp_max_")
def _clamp_max(eng, b, func, out):
    return u_min(eng.sym(b["self"]), eng.sym(b["max"]))


@op("clamp", "clamp_")
def _clamp(eng, b, func, out):
    r = eng.sym(b["self"])
    if b.get("min") is not None:
        if not _floor_cut(eng, r, eng.sym(b["min"])):
            r = u_max(r, eng.sym(b["min"]))
    if b.get("max") is not None:
        r = u_min(r, eng.sym(b["max"]))
    return r


@op("maximum", "fmax")
def _maximum(eng, b, func, out):
    return u_max(eng.sym(b["self"]), eng.sym(b["other"]))


@op("minimum", "fmin")
def _minimum(eng, b, func, out):
    return u_min(eng.sym(b["self"]), eng.sym(b["other"]))


@op("relu", "relu_")
def _relu(eng, b, func, out):
    return u_max(eng.sym(b["self"]), oarr(Fraction(0)))


# ------------------------------------------------------------------ copies / dtype / fills
@op("_to_copy", "alias", "detach", "lift_fresh_copy", "positive", "_conj", "conj", "resolve_conj", "resolve_neg",
    "_neg_view", "to_dense", "_to_dense")
def _copy_like(eng, b, func, out):
    t = b["self"]
    if isinstance(t, torch.Tensor) and (t.layout != torch.strided):
        from .sparse import record, to_dense
        if isinstance(out, torch.Tensor) and out.layout != torch.strided:
            eng.sparse[id(out)] = record(eng, t)  # detach / alias of a sparse tensor: same (indices, values) record object
            eng.keep.append(out)
            return None
        return to_dense(eng, t)
    return eng.sym(t)


@op("copy_")
def _copy_(eng, b, func, out):
    src = b["src"]
    if isinstance(src, torch.Tensor) and src.is_complex():
        return NotImplemented
    return eng.sym(src)


@op("fill_", "fill")
def _fill(eng, b, func, out):
    v = eng.sym(b["value"])
    return np.broadcast_to(v.reshape(()), tuple(b["self"].shape))


@op("zero_", "zeros_like", "new_zeros")
def _zero(eng, b, func, out):
    t = out if not func._schema.is_mutable else b["self"]
    return np.broadcast_to(oarr(T.const(0, sort_of_dtype(t.dtype))), tuple(t.shape))


@op("ones_like", "new_ones")
def _ones(eng, b, func, out):
    return np.broadcast_to(oarr(T.const(1, sort_of_dtype(out.dtype))), tuple(out.shape))


@op("full_like", "new_full")
def _full_like(eng, b, func, out):
    return np.broadcast_to(oarr(T.const(b["fill_value"], sort_of_dtype(out.dtype))), tuple(out.shape))


@op("resize_", "resize_as_")
def _resize(eng, b, func, out):
    t = b["self"]
    # storage may have been reallocated or grown; contents are unspecified -> fresh unconstrained variables
    k = eng.key(t)
    nel = max(t.untyped_storage().nbytes() // t.element_size(), 1)
    if k not in eng.store or len(eng.store[k]) < nel:
        if t.dtype in FLOAT_DT:
            eng.fresh_symbolic(t, "uninit")
        else:
            eng.alloc(t)
    return None


@op("set_")
def _set_(eng, b, func, out):
    return NotImplemented


# ------------------------------------------------------------------ contractions
def _matmul_cells(a, b_):
    return as_obj(np.matmul(a, b_))


@op("mm", "bmm", "matmul")
def _mm(eng, b, func, out):
    a = b["self"]
    o = b.get("mat2") if "mat2" in b else b.get("other")
    if (isinstance(a, torch.Tensor) and a.layout != torch.strided) or (isinstance(o, torch.Tensor) and o.layout != torch.strided):
        from .sparse import sparse_mm
        return sparse_mm(eng, a, o)
    A, B_ = eng.sym(a), eng.sym(o)
    if 0 in A.shape or 0 in B_.shape:
        return np.broadcast_to(oarr(Fraction(0)), tuple(out.shape))
    return _matmul_cells(A, B_)


@op("mv")
def _mv(eng, b, func, out):
    return _matmul_cells(eng.sym(b["self"]), eng.sym(b["vec"]))


@op("dot", "vdot")
def _dot(eng, b, func, out):
    k = "tensor" if "tensor" in b else "other"
    return _matmul_cells(eng.sym(b["self"]), eng.sym(b[k]))


def _scal(v):
    return T.const(v, T.R) if isinstance(v, float) else v


@op("addmm", "addmm_", "baddbmm", "baddbmm_", "addbmm")
def _addmm(eng, b, func, out):
    m1 = b.get("mat1") if "mat1" in b else b.get("batch1")
    m2 = b.get("mat2") if "mat2" in b else b.get("batch2")
    if m1.layout != torch.strided or m2.layout != torch.strided:
        return NotImplemented
    p = _matmul_cells(eng.sym(m1), eng.sym(m2))
    if opname(func) == "addbmm":
        p = reduce_dims(p, [0], False, T.add)
    al, be = b.get("alpha", 1), b.get("beta", 1)
    if al != 1:
        p = u_mul(p, oarr(_scal(al)))
    s = eng.sym(b["self"])
    if be != 1:
        s = u_mul(s, oarr(_scal(be)))
    return u_add(s, p)


@op("addmv", "addmv_")
def _addmv(eng, b, func, out):
    p = _matmul_cells(eng.sym(b["mat"]), eng.sym(b["vec"]))
    al, be = b.get("alpha", 1), b.get("beta", 1)
    if al != 1:
        p = u_mul(p, oarr(_scal(al)))
    s = eng.sym(b["self"])
    if be != 1:
        s = u_mul(s, oarr(_scal(be)))
    return u_add(s, p)


@op("addr")
def _addr(eng, b, func, out):
    p = u_mul(eng.sym(b["vec1"]).reshape(-1, 1), eng.sym(b["vec2"]).reshape(1, -1))
    al, be = b.get("alpha", 1), b.get("beta", 1)
    if al != 1:
        p = u_mul(p, oarr(_scal(al)))
    s = eng.sym(b["self"])
    if be != 1:
        s = u_mul(s, oarr(_scal(be)))
    return u_add(s, p)


# ------------------------------------------------------------------ reductions
@op("sum")
def _sum(eng, b, func, out):
    a = eng.sym(b["self"])
    tgt = b["out"] if b.get("out") is not None else out
    a = u_coerce(a, sort_of_dtype(tgt.dtype)) if sort_of_dtype(tgt.dtype) != T.B else a
    if a.size == 0:
        return np.broadcast_to(oarr(T.const(0, sort_of_dtype(tgt.dtype))), tuple(tgt.shape))
    if "dim" in b:
        return reduce_dims(a, b["dim"], b.get("keepdim", False), T.add)
    return reduce_dims(a, None, False, T.add)


@op("mean")
def _mean(eng, b, func, out):
    a = eng.sym(b["self"])
    dims = b.get("dim")
    r = reduce_dims(a, dims, b.get("keepdim", False), T.add)
    cnt = a.size // max(r.size, 1)
    return u_div(r, oarr(Fraction(cnt)))


@op("prod")
def _prod(eng, b, func, out):
    a = eng.sym(b["self"])
    if "dim" in b and b["dim"] is not None:
        return reduce_dims(a, [b["dim"]], b.get("keepdim", False), T.mul)
    return reduce_dims(a, None, False, T.mul)


@op("linalg_vector_norm", "norm")
def _vnorm(eng, b, func, out):
    a = u_toreal(eng.sym(b["self"]))
    ord_ = b.get("ord", b.get("p", 2))
    ord_ = 2 if ord_ is None else ord_
    dims = b.get("dim")
    keep = b.get("keepdim", False)
    if ord_ == 2:
        s = reduce_dims(u_mul(a, a), dims, keep, T.add)
        return u_sqrt(s)
    if ord_ == 1:
        return reduce_dims(u_abs(a), dims, keep, T.add)
    if ord_ == float("inf"):
        return reduce_dims(u_abs(a), dims, keep, T.maximum)
    raise UnsupportedOp(f"vector norm ord={ord_}")


@op("any")
def _any(eng, b, func, out):
    a = U(T.to_bool, 1)(eng.sym(b["self"]))
    if b.get("dim") is not None:
        return reduce_dims(a, b["dim"], b.get("keepdim", False), T.lor)
    if a.size == 0:
        return oarr(False)
    return reduce_dims(a, None, False, T.lor)


@op("all")
def _all(eng, b, func, out):
    a = U(T.to_bool, 1)(eng.sym(b["self"]))
    if b.get("dim") is not None:
        return reduce_dims(a, b["dim"], b.get("keepdim", False), T.land)
    if a.size == 0:
        return oarr(True)
    return reduce_dims(a, None, False, T.land)


@op("count_nonzero")
def _count_nonzero(eng, b, func, out):
    a = U(lambda x: T.to_int(T.to_bool(x)), 1)(eng.sym(b["self"]))
    d = b.get("dim")
    return reduce_dims(a, None if d is None else d, False, T.add)


@op("cumsum", "cumsum_")
def _cumsum(eng, b, func, out):
    a = eng.sym(b["self"])
    d = b["dim"] % max(a.ndim, 1)
    r = np.array(a, dtype=object, copy=True)
    if a.ndim == 0:
        return r
    for i in range(1, a.shape[d]):
        sl = [slice(None)] * a.ndim
        sl[d] = i
        pl = list(sl)
        pl[d] = i - 1
        r[tuple(sl)] = u_add(r[tuple(pl)], a[tuple(sl)])
    return r


@op("cumprod")
def _cumprod(eng, b, func, out):
    a = eng.sym(b["self"])
    d = b["dim"] % max(a.ndim, 1)
    r = np.array(a, dtype=object, copy=True)
    for i in range(1, a.shape[d]):
        sl = [slice(None)] * a.ndim
        sl[d] = i
        pl = list(sl)
        pl[d] = i - 1
        r[tuple(sl)] = u_mul(r[tuple(pl)], a[tuple(sl)])
    return r


@op("trace")
def _trace(eng, b, func, out):
    a = eng.sym(b["self"])
    return reduce_dims(np.diagonal(a), None, False, T.add)


def _argext(eng, a, dim, keepdim, want_max, site):
    """values via ite-chain; indices via a fork per slice (ties: first index, as torch on CPU)"""
    a = as_obj(a)
    if a.ndim == 0:
        return a, oarr(0)
    dim = dim % a.ndim
    n = a.shape[dim]
    moved = np.moveaxis(a, dim, -1)
    vals = np.empty(moved.shape[:-1], dtype=object)
    idxs = np.empty(moved.shape[:-1], dtype=object)
    for p in np.ndindex(*moved.shape[:-1]):
        row = list(moved[p])
        if all(T.is_const(c) for c in row):
            best = max(range(n), key=lambda i: (row[i], -i)) if want_max else min(range(n), key=lambda i: (row[i], i))
            vals[p], idxs[p] = row[best], best
            continue
        options = []
        for i in range(n):
            conds = []
            for j in range(n):
                if j == i:
                    continue
                if want_max:
                    conds.append(T.gt(row[i], row[j]) if j < i else T.ge(row[i], row[j]))
                else:
                    conds.append(T.lt(row[i], row[j]) if j < i else T.le(row[i], row[j]))
            options.append((i, T.conj(conds)))
        i = eng.choose(options, site)
        vals[p], idxs[p] = row[i], i
    if keepdim:
        vals, idxs = np.expand_dims(vals, dim), np.expand_dims(idxs, dim)
    return vals, idxs


@op("max", "min", "amax", "amin", "argmax", "argmin")
def _maxmin(eng, b, func, out):
    name = opname(func)
    want_max = name in ("max", "amax", "argmax")
    a = eng.sym(b["self"])
    f = T.maximum if want_max else T.minimum
    if name in ("amax", "amin"):
        return reduce_dims(a, b.get("dim"), b.get("keepdim", False), f)
    if name in ("argmax", "argmin"):
        d = b.get("dim")
        if d is None:
            v, i = _argext(eng, a.reshape(-1), 0, False, want_max, name)
            return i
        v, i = _argext(eng, a, d, b.get("keepdim", False), want_max, name)
        return i
    if "other" in b and b.get("other") is not None:
        return U(f, 2)(a, eng.sym(b["other"]))
    if "dim" in b and b["dim"] is not None:
        v, i = _argext(eng, a, b["dim"], b.get("keepdim", False), want_max, name)
        return [v, i]
    return reduce_dims(a, None, False, f)


@op("sort", "argsort", "topk", "_unique2", "unique_dim", "unique_consecutive", "kthvalue", "median", "mode")
def _sort(eng, b, func, out):
    raise UnsupportedOp(f"{func} on symbolic data (data-dependent permutation)")


@op("nonzero")
def _nonzero(eng, b, func, out):
    a = eng.sym(b["self"])
    # decide every cell; the witness then determines the (data-dependent) output shape consistently
    rows = []
    cut = eng.in_cut_site()
    for p in np.ndindex(*a.shape):
        c = T.to_bool(a[p])
        if cut is not None and T.is_term(c):
            eng.assume(c, f"generic-case cut: non-zero in {cut}")
            eng.cuts.append((cut, "nonzero", T.show(c, 60)))
            rows.append(p)
        elif eng.decide(c, "nonzero"):
            rows.append(p)
    r = np.empty((len(rows), a.ndim), dtype=object)
    for i, p in enumerate(rows):
        for j, v in enumerate(p):
            r[i, j] = int(v)
    if tuple(out.shape) != r.shape:
        raise PathAbort("nonzero: witness shape inconsistent with prescribed path")
    return r


# ------------------------------------------------------------------ misc structure with scalars
@op("linalg_cross")
def _cross(eng, b, func, out):
    return NotImplemented


@op("diag_embed")
def _diag_embed(eng, b, func, out):
    return plumb(eng, func, b)




from . import sparse as _sparse  # noqa: E402,F401  (registers handlers)
from . import fft as _fft  # noqa: E402,F401
from . import lapack as _lapack  # noqa: E402,F401
