"""Discharging obligations: SEEDED refutation -> RAW z3 -> NORM (+ z3 on the residual)."""
from __future__ import annotations

import math
import random
import time
from fractions import Fraction

from . import terms as T
from .norm import NormFail, Normaliser, path_fixed


class Verdict:
    def __init__(self, status, mode, seconds, model=None, detail=None, queries=0):
        self.status = status  # proved | refuted | unknown
        self.mode = mode
        self.seconds = seconds
        self.model = model
        self.detail = detail or {}
        self.queries = queries

    def __repr__(self):
        return f"<{self.status} by {self.mode} in {self.seconds:.3f}s {self.detail}>"


def _sample_point(vars_, witness, rnd, scale_idx):
    """a random point: dyadic reals (positive where declared), ints near the witness"""
    env = {}
    for v in vars_:  # id order: avar squares only mention earlier variables
        name = v.args[0]
        if v.op == "avar":
            sq = T.evalf([v.args[1]], env)[0]
            if not (sq >= 0):
                return None
            sgn = 1.0 if witness.get(name, 1.0) >= 0 else -1.0
            if rnd.random() < 0.5:
                sgn = -sgn
            env[name] = sgn * math.sqrt(sq)
            continue
        if v.sort == T.R:
            if scale_idx == 0 and name in witness:
                env[name] = float(witness[name])
            elif v.id in T._POS:
                env[name] = rnd.randint(1, 24) / 8.0
            elif v.id in T._NONNEG:
                env[name] = rnd.randint(0, 24) / 8.0
            else:
                env[name] = rnd.randint(-24, 24) / 8.0
        elif v.sort == T.Z:
            w = int(witness.get(name, 0))
            env[name] = w if scale_idx == 0 else w + rnd.randint(-3, 3)
        else:
            env[name] = bool(witness.get(name, False)) if scale_idx == 0 else bool(rnd.randint(0, 1))
    return env


def _holds(conds, env, memo):
    vals = T.evalf(conds, env, memo)
    return all(bool(v) for v in vals)


def seeded_refute(pairs, path, defined, witness, n_points=24, seed=0):
    roots = [x for p in pairs for x in p] + list(path) + list(defined)
    vars_ = T.variables(roots)
    rnd = random.Random(seed)
    tried = 0
    for k in range(n_points):
        env = _sample_point(vars_, witness, rnd, k)
        if env is None:
            continue
        memo = {}
        try:
            if not _holds(list(path) + list(defined), env, memo):
                continue
        except KeyError:
            continue
        tried += 1
        ls = T.evalf([a for a, _ in pairs], env, memo)
        rs = T.evalf([b for _, b in pairs], env, memo)
        for i, (l, r) in enumerate(zip(ls, rs)):
            if isinstance(l, bool) or isinstance(r, bool):
                if bool(l) != bool(r):
                    return env, i, tried
                continue
            if l != l or r != r or abs(l) == float("inf") or abs(r) == float("inf"):
                continue
            if abs(l - r) > 1e-7 * (1.0 + abs(l) + abs(r)):
                return env, i, tried
    return None, None, tried


def z3_model_env(model, conv):
    import z3

    env = {}
    for name, v in conv.vars.items():
        val = model.eval(v, model_completion=True)
        if z3.is_int_value(val):
            env[name] = val.as_long()
        elif z3.is_rational_value(val):
            env[name] = float(Fraction(val.numerator_as_long(), val.denominator_as_long()))
        elif z3.is_algebraic_value(val):
            a = val.approx(30)
            env[name] = float(Fraction(a.numerator_as_long(), a.denominator_as_long()))
        elif z3.is_true(val):
            env[name] = True
        elif z3.is_false(val):
            env[name] = False
        else:
            env[name] = 0.0
    return env


def z3_check(constraints_terms, negated_goal_terms, timeout_ms, box=None, seed=0):
    """sat?  (conj(constraints) and disj(negated goals)).  returns (str result, env or None, seconds)"""
    import z3

    t0 = time.time()
    conv = T.Z3Conv()
    s = z3.Solver()
    s.set("timeout", int(timeout_ms))
    s.set("random_seed", seed)
    goal = [conv(g) for g in negated_goal_terms]
    cons = [conv(c) for c in constraints_terms]
    for c in cons:
        s.add(c)
    for c in conv.side:
        s.add(c)
    if goal:
        s.add(z3.Or(*goal) if len(goal) > 1 else goal[0])
    if box is not None:
        for name, v in conv.vars.items():
            if z3.is_real(v) and not name.startswith("sqrt!"):
                s.add(v <= box, v >= -box)
    r = s.check()
    env = None
    if r == z3.sat:
        env = z3_model_env(s.model(), conv)
    return str(r), env, time.time() - t0


def discharge(pairs, path, defined, witness, timeout_s=10.0, seed=0, norm_first=False, labels=None, raw_first_s=1.0):
    """pairs: list of (lhs cell, rhs cell), equality obligations (bool cells: lhs == rhs as iff)."""
    t0 = time.time()
    live = []
    for i, (a, b) in enumerate(pairs):
        if T.is_const(a) and T.is_const(b):
            if a == b:
                continue
            return Verdict("refuted", "CONST", time.time() - t0, model=dict(witness), detail={"pair": i, "lhs": str(a), "rhs": str(b)})
        if a is b:
            continue
        live.append((i, a, b))
    if not live:
        return Verdict("proved", "SYNTACTIC", time.time() - t0, detail={"pairs": len(pairs)})
    lp = [(a, b) for _, a, b in live]
    # 1. seeded refutation
    env, j, tried = seeded_refute(lp, path, defined, witness, seed=seed)
    if env is not None:
        return Verdict("refuted", "SEEDED", time.time() - t0, model=env, detail={"pair": live[j][0], "points_tried": tried})
    queries = 0
    detail = {"pairs": len(pairs), "live": len(live), "seed_points": tried}

    def try_norm():
        try:
            N = Normaliser([x for p in lp for x in p], fixed=path_fixed(path))
            residual = []
            for k, (a, b) in enumerate(lp):
                p = N.diff_numerator(a, b)
                if p != 0:
                    residual.append((k, len(p)))
            return residual
        except NormFail as e:
            detail["norm_fail"] = str(e)
            return None

    neg = [T.lnot(T.eq(a, b)) for a, b in lp]

    def try_raw(tmo):
        nonlocal queries
        try:
            r, menv, secs = z3_check(list(path) + list(defined), neg, tmo * 1000, seed=seed)
            queries += 1
        except T.UnsupportedTerm as e:
            r, menv = "unknown", None
            detail["z3_fail"] = str(e)
        detail["raw"] = r
        if r == "unsat":
            return Verdict("proved", "RAW", time.time() - t0, detail=detail, queries=queries)
        if r == "sat":
            full = dict(witness)
            full.update(menv)
            return Verdict("refuted", "RAW", time.time() - t0, model=full, detail=detail, queries=queries)
        return None

    # 2. RAW z3 over the whole disjunction, short cap (polynomial identities and refutations come back in ms)
    if not norm_first:
        v = try_raw(min(raw_first_s, timeout_s))
        if v is not None:
            return v
    # 3. NORM
    res = try_norm()
    if res is not None and not res:
        return Verdict("proved", "NORM", time.time() - t0, detail=detail, queries=queries)
    if res:
        detail["norm_residual"] = res[:4]
    # 4. RAW with the full cap
    if timeout_s > raw_first_s or norm_first:
        v = try_raw(timeout_s)
        if v is not None:
            return v
    return Verdict("unknown", "-", time.time() - t0, detail=detail, queries=queries)


def feasible(conds, witness, timeout_s=10.0, seed=0, n_points=200):
    """is conj(conds) satisfiable?  returns ('sat', env) | ('unsat', None) | ('unknown', None)"""
    conds = [c for c in conds if not (T.is_const(c) and c)]
    if any(T.is_const(c) and not c for c in conds):
        return "unsat", None, "CONST"
    vars_ = T.variables(conds)
    rnd = random.Random(seed)
    for k in range(1, n_points):
        env = _sample_point(vars_, witness, rnd, k)
        if env is None:
            continue
        try:
            if _holds(conds, env, {}):
                full = dict(witness)
                full.update(env)
                return "sat", full, "SEEDED"
        except KeyError:
            break
    try:
        r, menv, _ = z3_check(conds, [], timeout_s * 1000, box=64, seed=seed)
    except T.UnsupportedTerm:
        return "unknown", None, "-"
    if r == "sat":
        full = dict(witness)
        full.update(menv)
        return "sat", full, "RAW"
    if r == "unsat":
        # the box is part of the query: re-ask without it before concluding infeasibility
        r2, menv, _ = z3_check(conds, [], timeout_s * 1000, box=None, seed=seed)
        if r2 == "unsat":
            return "unsat", None, "RAW"
        if r2 == "sat":
            full = dict(witness)
            full.update(menv)
            return "sat", full, "RAW"
    return "unknown", None, "-"
