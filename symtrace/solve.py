"""Discharging obligations: SEEDED refutation -> RAW z3 -> NORM (+ z3 on the residual)."""
from __future__ import annotations

import math
import random
import time
from fractions import Fraction

from . import terms as T
from .norm import NormFail, Normaliser, path_fixed


class Verdict:
    def __init__(self, status, mode, seconds, model=None, detail=None, queries=0):
        self.status = status  # proved | refuted | unknown
        self.mode = mode
        self.seconds = seconds
        self.model = model
        self.detail = detail or {}
        self.queries = queries

    def __repr__(self):
        return f"<{self.status} by {self.mode} in {self.seconds:.3f}s {self.detail}>"


def _sample_point(vars_, witness, rnd, scale_idx):
    """a random point: dyadic reals (positive where declared), ints near the witness"""
    env = {}
    for v in vars_:  # id order: avar squares only mention earlier variables
        name = v.args[0]
        if v.op == "avar":
            sq = T.evalf([v.args[1]], env)[0]
            if not (sq >= 0):
                return None
            sgn = 1.0 if witness.get(name, 1.0) >= 0 else -1.0
            if rnd.random() < 0.5:
                sgn = -sgn
            env[name] = sgn * math.sqrt(sq)
            continue
        if v.sort == T.R:
            if scale_idx == 0 and name in witness:
                env[name] = float(witness[name])
            elif v.id in T._POS:
                env[name] = rnd.randint(1, 24) / 8.0
            elif v.id in T._NONNEG:
                env[name] = rnd.randint(0, 24) / 8.0
            else:
                x = rnd.randint(-24, 24) / 8.0
                env[name] = x if x != 0.0 else 0.0625  # generic points: exact zeros sit on definedness boundaries
        elif v.sort == T.Z:
            w = int(witness.get(name, 0))
            env[name] = w if scale_idx == 0 else w + rnd.randint(-3, 3)
        else:
            env[name] = bool(witness.get(name, False)) if scale_idx == 0 else bool(rnd.randint(0, 1))
    return env


def _holds(conds, env, memo):
    vals = T.evalf(conds, env, memo)
    return all(bool(v) for v in vals)


def _holds_hp(conds, env):
    """the same in 60-digit arithmetic: a sampled point that satisfies a comparison only through float rounding (a residual
    that is exactly 0 in R evaluating to -1e-17) is not a witness"""
    try:
        return all(bool(v) for v in T.evalmp(list(conds), env))
    except Exception:  # noqa: BLE001
        return False


def seeded_refute(pairs, path, defined, witness, n_points=24, seed=0):
    roots = [x for p in pairs for x in p] + list(path) + list(defined)
    vars_ = T.variables(roots)
    rnd = random.Random(seed)
    tried = 0
    # generic dyadic points first; the path's own witness (k = 0) last: it may be a solver-chosen boundary point where the
    # real code is legitimately inaccurate in floating point
    for k in list(range(1, n_points)) + [0]:
        if k == 0 and tried >= 4:
            break
        env = _sample_point(vars_, witness, rnd, k)
        if env is None:
            continue
        memo = {}
        try:
            if not _holds(list(path) + list(defined), env, memo):
                continue
        except KeyError:
            continue
        if k > 0 and not _holds_hp(list(path) + list(defined), env):
            continue
        tried += 1
        ls = T.evalf([a for a, _ in pairs], env, memo)
        rs = T.evalf([b for _, b in pairs], env, memo)
        for i, (l, r) in enumerate(zip(ls, rs)):
            if isinstance(l, bool) or isinstance(r, bool):
                if bool(l) != bool(r):
                    return env, i, tried
                continue
            if l != l or r != r or abs(l) == float("inf") or abs(r) == float("inf"):
                continue
            if abs(l - r) > 1e-7 * (1.0 + abs(l) + abs(r)):
                return env, i, tried
    return None, None, tried


def z3_model_env(model, conv):
    import z3

    env = {}
    for name, v in conv.vars.items():
        val = model.eval(v, model_completion=True)
        if z3.is_int_value(val):
            env[name] = val.as_long()
        elif z3.is_rational_value(val):
            env[name] = float(Fraction(val.numerator_as_long(), val.denominator_as_long()))
        elif z3.is_algebraic_value(val):
            a = val.approx(30)
            env[name] = float(Fraction(a.numerator_as_long(), a.denominator_as_long()))
        elif z3.is_true(val):
            env[name] = True
        elif z3.is_false(val):
            env[name] = False
        else:
            env[name] = 0.0
    return env


def z3_check(constraints_terms, negated_goal_terms, timeout_ms, box=None, seed=0):
    """sat?  (conj(constraints) and disj(negated goals)).  returns (str result, env or None, seconds)"""
    import z3

    t0 = time.time()
    conv = T.Z3Conv()
    s = z3.Solver()
    s.set("timeout", int(timeout_ms))
    s.set("random_seed", seed)
    goal = [conv(g) for g in negated_goal_terms]
    cons = [conv(c) for c in constraints_terms]
    for c in cons:
        s.add(c)
    for c in conv.side:
        s.add(c)
    if goal:
        s.add(z3.Or(*goal) if len(goal) > 1 else goal[0])
    if box is not None:
        for name, v in conv.vars.items():
            if z3.is_real(v) and not name.startswith("sqrt!"):
                s.add(v <= box, v >= -box)
    r = s.check()
    env = None
    if r == z3.sat:
        env = z3_model_env(s.model(), conv)
    return str(r), env, time.time() - t0


def logsplit(t):
    """t = rem + sum_i c_i * log(a_i) with rational c_i; returns (rem term, [(c_i, a_i)]) or None if no top-level log"""
    logs = []
    rem = Fraction(0)
    stack = [(t, Fraction(1))]
    found = False
    while stack:
        x, c = stack.pop()
        if not isinstance(x, T.Term):
            rem = T.add(rem, T.mul(x, c))
            continue
        if x.op == "uf" and x.args[0] == "log":
            logs.append((c, x.args[1]))
            found = True
        elif x.op == "add":
            stack.append((x.args[0], c))
            stack.append((x.args[1], c))
        elif x.op == "neg":
            stack.append((x.args[0], -c))
        elif x.op == "mul" and not isinstance(x.args[1], T.Term) and isinstance(x.args[1], Fraction):
            stack.append((x.args[0], c * x.args[1]))
        elif x.op == "mul" and not isinstance(x.args[0], T.Term) and isinstance(x.args[0], Fraction):
            stack.append((x.args[1], c * x.args[0]))
        else:
            rem = T.add(rem, T.mul(x, c))
    if not found:
        return None
    return rem, logs


def _log_product(logs, D):
    num, den = Fraction(1), Fraction(1)
    for c, a in logs:
        e = c * D
        assert e.denominator == 1
        e = int(e)
        if a.op == "sqrt" if isinstance(a, T.Term) else False:
            if e % 2 == 0:
                a, e = a.args[0], e // 2
        if e > 0:
            num = T.mul(num, T.powi(a, e))
        elif e < 0:
            den = T.mul(den, T.powi(a, -e))
    return num, den


def expand_log_pairs(pairs):
    """replace log-linear equalities by (remainder equality, product-of-arguments equality): sufficient, not necessary"""
    out = []
    changed = False
    for a, b in pairs:
        sa = logsplit(a) if isinstance(a, T.Term) else None
        sb = logsplit(b) if isinstance(b, T.Term) else None
        if sa is None and sb is None:
            out.append((a, b))
            continue
        ra, la = sa if sa is not None else (a, [])
        rb, lb = sb if sb is not None else (b, [])
        import math
        D = 1
        for c, _ in la + lb:
            D = D * c.denominator // math.gcd(D, c.denominator)
        D *= 2  # sqrt arguments halve exponents
        na, da = _log_product(la, D)
        nb, db = _log_product(lb, D)
        out.append((ra, rb))
        out.append((T.mul(na, db), T.mul(nb, da)))
        changed = True
    return out, changed


def discharge(pairs, path, defined, witness, timeout_s=10.0, seed=0, norm_first=False, labels=None, raw_first_s=1.0, norm_budget_s=None):
    norm_budget_s = norm_budget_s or max(5.0, 3 * timeout_s)
    """pairs: list of (lhs cell, rhs cell), equality obligations (bool cells: lhs == rhs as iff)."""
    t0 = time.time()
    live = []
    for i, (a, b) in enumerate(pairs):
        if T.is_const(a) and T.is_const(b):
            if a == b:
                continue
            return Verdict("refuted", "CONST", time.time() - t0, model=dict(witness), detail={"pair": i, "lhs": str(a), "rhs": str(b)})
        if a is b:
            continue
        live.append((i, a, b))
    if not live:
        return Verdict("proved", "SYNTACTIC", time.time() - t0, detail={"pairs": len(pairs)})
    lp = [(a, b) for _, a, b in live]
    # 1. seeded refutation (on the original terms)
    env, j, tried = seeded_refute(lp, path, defined, witness, seed=seed)
    if env is not None:
        full = dict(witness)
        full.update(env)  # leaves that do not occur in the obligation keep their witness value in the replay
        return Verdict("refuted", "SEEDED", time.time() - t0, model=full, detail={"pair": live[j][0], "points_tried": tried})
    lp2, had_logs = expand_log_pairs(lp)
    if had_logs:
        lp = [(a, b) for a, b in lp2 if not (a is b or (T.is_const(a) and T.is_const(b) and a == b))]
        if not lp:
            return Verdict("proved", "SYNTACTIC", time.time() - t0, detail={"pairs": len(pairs), "log_linear": True})
    queries = 0
    detail = {"pairs": len(pairs), "live": len(live), "seed_points": tried}
    if had_logs:
        detail["log_linear"] = True

    def try_norm():
        from .timebox import timebox

        try:
            with timebox(norm_budget_s, NormFail(f"normaliser time budget {norm_budget_s}s exceeded")):
                return _try_norm()
        except NormFail as e:
            detail["norm_fail"] = str(e)
            return None

    def _try_norm():
        try:
            N = Normaliser([x for p in lp for x in p], fixed=path_fixed(path))
            residual = []
            for k, (a, b) in enumerate(lp):
                p = N.diff_numerator(a, b)
                if p != 0:
                    residual.append((k, len(p)))
            return residual
        except NormFail as e:
            detail["norm_fail"] = str(e)
            return None

    neg = [T.lnot(T.eq(a, b)) for a, b in lp]
    has_uf = any(t.op == "uf" for t in T.reachable([x for p in lp for x in p] + list(path) + list(defined)))

    def try_raw(tmo):
        nonlocal queries
        try:
            r, menv, secs = z3_check(list(path) + list(defined), neg, tmo * 1000, seed=seed)
            queries += 1
        except T.UnsupportedTerm as e:
            r, menv = "unknown", None
            detail["z3_fail"] = str(e)
        detail["raw"] = r
        if r == "unsat":
            return Verdict("proved", "RAW", time.time() - t0, detail=detail, queries=queries)
        if r == "sat":
            if has_uf:
                detail["raw"] = "sat-with-uninterpreted-functions (not a counterexample)"
                return None
            # ask again for a ROBUST counterexample (difference >= 1/8, leaves in a box) so that it survives the
            # float64 replay tolerance; fall back to the first model
            try:
                margin = Fraction(1, 8)
                robust = []
                for a, b in lp:
                    if T.sort_of(a) == T.B or T.sort_of(b) == T.B:
                        robust.append(T.lnot(T.eq(a, b)))
                    else:
                        d = T.sub(a, b)
                        robust.append(T.lor(T.gt(d, margin), T.lt(d, -margin)))
                r2, menv2, _ = z3_check(list(path) + list(defined), robust, tmo * 1000, box=8, seed=seed)
                queries += 1
                if r2 == "sat":
                    menv = menv2
                    detail["robust_model"] = True
            except T.UnsupportedTerm:
                pass
            full = dict(witness)
            full.update(menv)
            return Verdict("refuted", "RAW", time.time() - t0, model=full, detail=detail, queries=queries)
        return None

    # obligations over finite-domain integers (ite / index chains) are what the indicator normal form decides;
    # z3's mixed int/real nonlinear reasoning mostly times out on them, so NORM goes first there
    if not norm_first and T._RANGES:
        if any(t.op == "var" and t.sort == T.Z and t.args[0] in T._RANGES for t in T.reachable([x for p in lp for x in p])):
            norm_first = True
    # 2. RAW z3 over the whole disjunction, short cap (polynomial identities and refutations come back in ms)
    if not norm_first:
        v = try_raw(min(raw_first_s, timeout_s))
        if v is not None:
            return v
    # 3. NORM
    res = try_norm()
    if res is not None and not res:
        return Verdict("proved", "NORM", time.time() - t0, detail=detail, queries=queries)
    if res:
        detail["norm_residual"] = res[:4]
    # 3b. inequality obligations: normalise b - a to num/den and ask z3 about the polynomial sign condition only
    if all(T.is_const(b) and b is True and isinstance(a, T.Term) and a.op in ("le", "lt") for a, b in lp):
        v = _poly_inequalities(lp, path, defined, timeout_s, seed, detail)
        queries += 1
        if v == "unsat":
            return Verdict("proved", "NORM+NRA", time.time() - t0, detail=detail, queries=queries)
    # 4. RAW with the full cap
    if timeout_s > raw_first_s or norm_first:
        v = try_raw(timeout_s)
        if v is not None:
            return v
    return Verdict("unknown", "-", time.time() - t0, detail=detail, queries=queries)


def norm_fold(cond, fixed):
    """decide a comparison whose two sides are identical as rational functions (e.g. a residual that is identically 0)"""
    neg = False
    c = cond
    while isinstance(c, T.Term) and c.op == "not":
        neg = not neg
        c = c.args[0]
    if not isinstance(c, T.Term) or c.op not in ("lt", "le", "eq"):
        return cond
    a, b = c.args
    if T.sort_of(a) != T.R and T.sort_of(b) != T.R:
        return cond
    try:
        from .timebox import timebox
        with timebox(5.0, NormFail("fold budget")):
            N = Normaliser([a, b], fixed=fixed)
            (na, da), (nb, db) = N._pair(a), N._pair(b)
            if da == N.R.one and db == N.R.one:
                d = N.red(na - nb)
                if d.is_ground:
                    v = d.coeff(1) if d != 0 else 0
                    val = {"lt": v < 0, "le": v <= 0, "eq": v == 0}[c.op]
                    return (not val) if neg else val
    except NormFail:
        pass
    return cond


def _poly_inequalities(lp, path, defined, timeout_s, seed, detail):
    """a <= b  with b - a = n/d in normal form: violated iff n*d < 0 (resp. <= 0 for strict); decided by z3 on polynomials over the
    generators, with the atom relations (r >= 0, r^2 = radicand) and the sign facts of the leaves as constraints"""
    import z3

    try:
        from .timebox import timebox
        with timebox(max(5.0, timeout_s), NormFail("inequality normalisation budget")):
            roots = [x for a, _ in lp for x in a.args]
            N = Normaliser(roots, fixed=path_fixed(path))
            zv = {nm: z3.Real(f"g{i}") for nm, i in N.idx.items()}
            order = [None] * len(N.names)
            for nm, i in N.idx.items():
                order[i] = zv[nm]

            def p2z(poly):
                acc = z3.RealVal(0)
                for mon, coef in poly.terms():
                    term = z3.RealVal(str(Fraction(int(coef.numerator), int(coef.denominator))))
                    for i, e in enumerate(mon):
                        for _ in range(e):
                            term = term * order[i]
                    acc = acc + term
                return acc

            s = z3.Solver()
            s.set("timeout", int(timeout_s * 1000))
            # atom relations and signs
            for i, rad in N.rel.items():
                g = order[i]
                s.add(g * g == p2z(rad))
                if N.names[i].startswith(("r_", "m_")):
                    s.add(g >= 0)
            for t in N.nodes:
                nm = N.gen_of.get(t.id)
                if nm is None or t.op != "var":
                    continue
                if t.id in T._POS:
                    s.add(zv[nm] > 0)
                elif t.id in T._NONNEG:
                    s.add(zv[nm] >= 0)
                lo, hi = T._BOUNDS.get(t.id, (None, None))
                if lo is not None:
                    s.add(zv[nm] >= z3.RealVal(str(lo)))
                if hi is not None:
                    s.add(zv[nm] < z3.RealVal(str(hi)))
            bad = []
            for a, _ in lp:
                x, y = a.args
                (n1, d1), (n2, d2) = N._pair(x), N._pair(y)
                num = N.red(n2 * d1 - n1 * d2)
                den = N.red(d1 * d2)
                nz, dz = p2z(num), p2z(den)
                s.add(dz != 0)
                bad.append(nz * dz < 0 if a.op == "le" else nz * dz <= 0)
            s.add(z3.Or(*bad) if len(bad) > 1 else bad[0])
        r = str(s.check())
        detail["poly_inequality"] = r
        return r
    except (NormFail, T.UnsupportedTerm) as e:
        detail["poly_inequality"] = f"fail: {e}"
        return "unknown"


def feasible(conds, witness, timeout_s=10.0, seed=0, n_points=200):
    """is conj(conds) satisfiable?  returns ('sat', env) | ('unsat', None) | ('unknown', None)"""
    conds = [c for c in conds if not (T.is_const(c) and c)]
    if conds:
        fx = path_fixed(conds[:-1])
        last = norm_fold(conds[-1], fx)
        if last is not conds[-1]:
            if not last:
                return "unsat", None, "NORM"
            conds = conds[:-1]
    if any(T.is_const(c) and not c for c in conds):
        return "unsat", None, "CONST"
    vars_ = T.variables(conds)
    rnd = random.Random(seed)
    for k in range(1, n_points):
        env = _sample_point(vars_, witness, rnd, k)
        if env is None:
            continue
        try:
            if _holds(conds, env, {}) and _holds_hp(conds, env):
                full = dict(witness)
                full.update(env)
                return "sat", full, "SEEDED"
        except KeyError:
            break
    try:
        # prefer a well-conditioned witness: positive-declared variables bounded away from zero
        margin = [T.mk("le", (Fraction(1, 64), v), T.B) for v in vars_ if v.op == "var" and v.id in T._POS]
        r, menv, _ = z3_check(list(conds) + margin, [], timeout_s * 1000, box=64, seed=seed) if margin else ("unknown", None, 0)
        if r != "sat":
            r, menv, _ = z3_check(conds, [], timeout_s * 1000, box=64, seed=seed)
    except T.UnsupportedTerm:
        return "unknown", None, "-"
    if r == "sat":
        full = dict(witness)
        full.update(menv)
        return "sat", full, "RAW"
    if r == "unsat":
        # the box is part of the query: re-ask without it before concluding infeasibility
        r2, menv, _ = z3_check(conds, [], timeout_s * 1000, box=None, seed=seed)
        if r2 == "unsat":
            return "unsat", None, "RAW"
        if r2 == "sat":
            full = dict(witness)
            full.update(menv)
            return "sat", full, "RAW"
    return "unknown", None, "-"
