"""Sparse COO tensors: a sparse tensor is the pair (index tensor, value tensor) + size; products by ite-scatter."""
from __future__ import annotations

from fractions import Fraction

import numpy as np
import torch

from . import terms as T
from .engine import UnsupportedOp, as_obj, oarr
from .ops import _sel, op, range_guard

ZERO = Fraction(0)


def record(eng, t):
    r = eng.sparse.get(id(t))
    if r is None:
        # a concrete sparse tensor created outside symbolic flow: lift it
        from torch.utils._python_dispatch import _disable_current_modes
        with _disable_current_modes():
            tc = t.detach().coalesce() if not t.is_coalesced() else t.detach()
            idx, val = tc._indices().clone(), tc._values().clone()
        return {"indices": eng.lift(idx), "values": eng.lift(val), "size": tuple(t.shape)}
    return r


@op("_sparse_coo_tensor_with_dims_and_tensors")
def _mk_sparse(eng, b, func, out):
    if b["dense_dim"] != 0:
        raise UnsupportedOp("hybrid sparse tensor")
    idx, val = b["indices"], b["values"]
    eng.sparse[id(out)] = {"indices": np.array(eng.sym(idx), dtype=object, copy=True),
                           "values": np.array(eng.sym(val), dtype=object, copy=True), "size": tuple(b["size"])}
    eng.keep.append(out)
    return None


def rec_indices(eng, r):
    """current index cells of a sparse tensor: `_indices()` hands out its internal storage, so in-place edits count"""
    t = r.get("indices_t")
    return eng.sym(t) if t is not None and eng.has(t) else r["indices"]


def rec_values(eng, r):
    t = r.get("values_t")
    return eng.sym(t) if t is not None and eng.has(t) else r["values"]


def _alias_out(eng, b, out, which):
    sp = b["self"]
    r = eng.sparse.get(id(sp))
    if r is None:
        r = record(eng, sp)
        eng.sparse[id(sp)] = r
        eng.keep.append(sp)
    if eng.has(out):
        r.setdefault(which + "_t", out)
        return None  # a second view of storage the engine already tracks
    cells = rec_indices(eng, r) if which == "indices" else rec_values(eng, r)
    eng.new(out, cells)
    r[which + "_t"] = out
    return None


@op("_indices", "indices")
def _indices(eng, b, func, out):
    return _alias_out(eng, b, out, "indices")


@op("_values", "values")
def _values(eng, b, func, out):
    return _alias_out(eng, b, out, "values")


@op("_coalesced_", "_coalesce", "coalesce")
def _coalesce(eng, b, func, out):
    raise UnsupportedOp("coalesce on symbolic sparse tensor")


def to_dense(eng, t):
    r = record(eng, t)
    size = r["size"]
    idx, val = rec_indices(eng, r), rec_values(eng, r)
    nnz = idx.shape[1] if idx.ndim == 2 else 0
    out = np.empty(size, dtype=object)
    for d in range(len(size)):
        range_guard(eng, idx[d], size[d], False, "sparse.to_dense")
    for p in np.ndindex(*size):
        acc = ZERO
        for k in range(nnz):
            c = T.conj([T.eq(idx[d, k], int(p[d])) for d in range(len(size))])
            acc = T.add(acc, T.ite(c, val[k], ZERO))
        out[p] = acc
    return out


def sparse_mm(eng, a, o):
    """mm(sparse 2-D, dense 2-D) or mm(dense, sparse)"""
    a_sp = isinstance(a, torch.Tensor) and a.layout != torch.strided
    o_sp = isinstance(o, torch.Tensor) and o.layout != torch.strided
    if a_sp and not o_sp:
        r = record(eng, a)
        if len(r["size"]) != 2:
            raise UnsupportedOp("sparse mm with batch sparse")
        rows, cols = r["size"]
        idx, val = rec_indices(eng, r), rec_values(eng, r)
        D = eng.sym(o)
        nnz = idx.shape[1]
        range_guard(eng, idx[0], rows, False, "sparse.mm rows")
        range_guard(eng, idx[1], cols, False, "sparse.mm cols")
        out = np.empty((rows, D.shape[1]), dtype=object)
        # contribution of nnz k to row i, column j:  [r_k == i] * v_k * D[c_k, j]
        for j in range(D.shape[1]):
            picked = [T.mul(val[k], _sel([D[c, j] for c in range(cols)], idx[1, k], cols, False)) for k in range(nnz)]
            for i in range(rows):
                acc = ZERO
                for k in range(nnz):
                    acc = T.add(acc, T.ite(T.eq(idx[0, k], i), picked[k], ZERO))
                out[i, j] = acc
        return out
    if a_sp and o_sp:
        raise UnsupportedOp("sparse @ sparse")
    # dense @ sparse
    A = eng.sym(a)
    dense_o = to_dense(eng, o)
    return as_obj(np.matmul(A, dense_o))


@op("t", "transpose", "_sparse_transpose")
def _sparse_t(eng, b, func, out):
    t = b["self"]
    if t.layout == torch.strided:
        return NotImplemented
    r = record(eng, t)
    if opname_of(func) == "t":
        d0, d1 = 0, 1
    else:
        nd = len(r["size"])
        d0, d1 = b["dim0"] % nd, b["dim1"] % nd
    idx = np.array(rec_indices(eng, r), dtype=object, copy=True)
    idx[[d0, d1]] = idx[[d1, d0]]
    size = list(r["size"])
    size[d0], size[d1] = size[d1], size[d0]
    eng.sparse[id(out)] = {"indices": idx, "values": np.array(rec_values(eng, r), dtype=object, copy=True), "size": tuple(size)}
    eng.keep.append(out)
    return None


def opname_of(func):
    return func._schema.name.split("::")[1]


@op("_sparse_mm", "_sparse_addmm", "sspaddmm", "hspmm", "smm")
def _sparse_mm_op(eng, b, func, out):
    if opname_of(func) == "_sparse_mm":
        return sparse_mm(eng, b.get("sparse", b.get("self")), b["dense"])
    raise UnsupportedOp(str(func))
