"""Contract stubs for LAPACK-backed ATen ops (each stub is part of the claim; listed in the evidence).

* cholesky_ex: a registered factor (the harness built A = L L^T and told us) is returned when the input is provably
  that A (syntactic or NORM identity); otherwise the explicit algorithm with one sqrt atom per pivot and a FORK on the
  sign of each pivot (info = first non-positive pivot; factor contents beyond it are unspecified = fresh variables).
* triangular / cholesky solves, inverse, solve, determinant: explicit exact formulas (substitution, cofactors).
* eigh / qr / svd: registered decompositions only (A = Q diag(w) Q^T etc. built by the harness); QR also has an explicit
  Gram-Schmidt form.  For non-unique outputs the concrete shadow is overwritten with the witness value of the symbolic
  result so that later translator cross-checks stay meaningful.
"""
from __future__ import annotations

import itertools
from fractions import Fraction

import numpy as np
import torch
from torch.utils._python_dispatch import _disable_current_modes

from . import terms as T
from .engine import PathAbort, UnsupportedOp, as_obj, oarr
from .norm import NormFail, Normaliser, path_fixed
from .ops import op

ZERO, ONE = Fraction(0), Fraction(1)


def same_cells(eng, A, B):
    """are the two cell arrays provably identical (syntactic, else polynomial identity)?"""
    if A.shape != B.shape:
        return False
    fa, fb = list(A.reshape(-1)), list(B.reshape(-1))
    pending = []
    for a, b in zip(fa, fb):
        if T.is_const(a) and T.is_const(b):
            if a != b:
                return False
            continue
        if a is b:
            continue
        pending.append((a, b))
    if not pending:
        return True
    # cheap numeric filter at the witness before the polynomial check
    va = T.evalf([a for a, _ in pending], eng.env)
    vb = T.evalf([b for _, b in pending], eng.env)
    for x, y in zip(va, vb):
        if x == x and y == y and abs(x - y) > 1e-8 * (1 + abs(x) + abs(y)):
            return False
    try:
        N = Normaliser([x for p in pending for x in p], fixed=path_fixed(eng.path))
        return all(N.diff_numerator(a, b) == 0 for a, b in pending)
    except NormFail:
        return False


def set_shadow(eng, t, cells):
    """overwrite the concrete shadow of t with the witness value of its symbolic cells"""
    vals = T.evalf(list(as_obj(cells).reshape(-1)), eng.env)
    with _disable_current_modes():
        src = torch.tensor([float(v) if not isinstance(v, bool) else v for v in vals], dtype=torch.float64).reshape(tuple(t.shape))
        t.detach().copy_(src.to(t.dtype))


def bind_out(eng, t, cells, override_shadow=False):
    eng.new(t, cells)
    if override_shadow:
        set_shadow(eng, t, eng.view(t))


def batch_iter(shape):
    return list(np.ndindex(*shape)) if len(shape) else [()]


def bcast_get(arr, idx, nb):
    """index the leading batch dims of arr (which may have fewer / size-1 batch dims) with a full batch index"""
    b = arr.ndim - nb
    use = idx[len(idx) - b:] if b else ()
    use = tuple(0 if arr.shape[i] == 1 else u for i, u in enumerate(use))
    return arr[use]


# ------------------------------------------------------------------ cholesky
def chol_explicit(eng, A, upper, site):
    """A: (n,n) cells (symmetrised view of the triangle LAPACK reads).  returns (L lower cells, info) ; forks on pivots.

    Pivot j equals M_{j+1}/M_j (ratio of leading principal minors), so with atoms q_j = sqrt(M_j) the diagonal is
    L_jj = q_{j+1}/q_j and every radicand is a polynomial in the entries of A."""
    n = A.shape[0]
    L = np.empty((n, n), dtype=object)
    L[...] = ZERO
    q_prev = ONE
    for j in range(n):
        M = det_cells(A[: j + 1, : j + 1])
        pos = T.gt(M, 0)
        if T.is_const(pos):
            ok = bool(pos)
        elif T.is_positive(M):
            ok = True
        else:
            ok = eng.decide(pos, f"cholesky-pivot[{j}]")
        if not ok:
            # LAPACK stops here; what it leaves in the trailing block is unspecified
            for k in range(j, n):
                for i in range(k, n):
                    L[i, k] = eng.fresh_var("chol_unspec", T.R, 0.5)
            return L, j + 1
        q = T.sqrt(M)
        if T.is_term(q):
            T.declare_positive(q)
        d = T.div(q, q_prev)
        L[j, j] = d
        for i in range(j + 1, n):
            s2 = A[i, j]
            for k in range(j):
                s2 = T.sub(s2, T.mul(L[i, k], L[j, k]))
            L[i, j] = T.div(s2, d)
        q_prev = q
    return L, 0


@op("linalg_cholesky_ex")
def _cholesky_ex(eng, b, func, out):
    A_t, upper = b["self"], b["upper"]
    A = eng.sym(A_t)
    Lout, info_out = out
    nb = A.ndim - 2
    n = A.shape[-1]
    res = np.empty(A.shape, dtype=object)
    info = np.empty(A.shape[:-2], dtype=object)
    # registered factor for the whole (batched) input?
    for RA, L_t in eng.registered_chol:
        if RA.shape == A.shape and same_cells(eng, A, RA):
            Lc = eng.sym(L_t)
            res = np.swapaxes(Lc, -1, -2) if upper else Lc
            info[...] = 0
            eng.stub_log.append(("cholesky_ex", "registered"))
            bind_out(eng, Lout, res, override_shadow=True)
            bind_out(eng, info_out, info)
            _fix_info_shadow(eng, info_out, info)
            return None
    for idx in batch_iter(A.shape[:-2]):
        M = A[idx]
        # the algorithm reads the lower (upper) triangle only, like LAPACK
        Msym = np.empty((n, n), dtype=object)
        for i in range(n):
            for j in range(n):
                Msym[i, j] = (M[j, i] if upper else M[i, j]) if j <= i else (M[i, j] if upper else M[j, i])
        Lc, inf = chol_explicit(eng, Msym, upper, "cholesky_ex")
        res[idx] = Lc.T if upper else Lc
        info[idx] = inf
    eng.stub_log.append(("cholesky_ex", "explicit"))
    bind_out(eng, Lout, res, override_shadow=True)
    bind_out(eng, info_out, info)
    _fix_info_shadow(eng, info_out, info)
    return None


def _fix_info_shadow(eng, t, info):
    with _disable_current_modes():
        vals = [int(v) for v in as_obj(info).reshape(-1)]
        t.detach().copy_(torch.tensor(vals, dtype=t.dtype).reshape(tuple(t.shape)))


# ------------------------------------------------------------------ triangular solves
def tri_solve(eng, A, B_, upper, unit, transpose=False):
    """solve A X = B for one (n,n) triangular A and (n,k) B (cells).  reads only the relevant triangle"""
    n, k = A.shape[0], B_.shape[1]
    if transpose:
        A = A.T
        upper = not upper
    X = np.empty((n, k), dtype=object)
    order = range(n - 1, -1, -1) if upper else range(n)
    for c in range(k):
        for i in order:
            s = B_[i, c]
            rng = range(i + 1, n) if upper else range(i)
            for j in rng:
                s = T.sub(s, T.mul(A[i, j], X[j, c]))
            if unit:
                X[i, c] = s
            else:
                d = A[i, i]
                if T.is_term(d) and not T.is_positive(d):
                    eng.require_defined(T.ne(d, 0), "triangular solve pivot")
                X[i, c] = T.div(s, d)
    return X


def batched(eng, A, B_, f, out_tail):
    """apply f(A_i, B_i) over broadcast batch dims"""
    ba, bb = A.shape[:-2], B_.shape[:-2]
    bs = np.broadcast_shapes(ba, bb)
    A2 = np.broadcast_to(A, bs + A.shape[-2:])
    B2 = np.broadcast_to(B_, bs + B_.shape[-2:])
    res = np.empty(bs + out_tail, dtype=object)
    for idx in batch_iter(bs):
        res[idx] = f(A2[idx], B2[idx])
    return res


@op("linalg_solve_triangular")
def _solve_triangular(eng, b, func, out):
    A, B_ = eng.sym(b["self"]), eng.sym(b["B"])
    upper, left, unit = b["upper"], b["left"], b["unitriangular"]
    eng.stub_log.append(("solve_triangular", f"upper={upper},left={left}"))
    if left:
        return batched(eng, A, B_, lambda a, bb: tri_solve(eng, a, bb, upper, unit), B_.shape[-2:])
    # X A = B  <=>  A^T X^T = B^T
    return batched(eng, A, B_, lambda a, bb: tri_solve(eng, a.T, bb.T, not upper, unit).T, B_.shape[-2:])


@op("triangular_solve")
def _triangular_solve(eng, b, func, out):
    B_, A = eng.sym(b["self"]), eng.sym(b["A"])
    upper, transpose, unit = b["upper"], b["transpose"], b["unitriangular"]
    eng.stub_log.append(("triangular_solve", f"upper={upper},transpose={transpose}"))
    X = batched(eng, A, B_, lambda a, bb: tri_solve(eng, a, bb, upper, unit, transpose=transpose), B_.shape[-2:])
    bs = X.shape[:-2]
    return [X, np.broadcast_to(A, bs + A.shape[-2:])]


@op("cholesky_solve")
def _cholesky_solve(eng, b, func, out):
    B_, L = eng.sym(b["self"]), eng.sym(b["input2"])
    upper = b["upper"]
    eng.stub_log.append(("cholesky_solve", f"upper={upper}"))

    def f(l, bb):
        if upper:  # A = U^T U
            y = tri_solve(eng, l, bb, True, False, transpose=True)
            return tri_solve(eng, l, y, True, False)
        y = tri_solve(eng, l, bb, False, False)
        return tri_solve(eng, l, y, False, False, transpose=True)

    return batched(eng, L, B_, f, B_.shape[-2:])


@op("cholesky_inverse")
def _cholesky_inverse(eng, b, func, out):
    L = eng.sym(b["self"])
    upper = b["upper"]
    n = L.shape[-1]
    I = np.empty((n, n), dtype=object)
    I[...] = ZERO
    for i in range(n):
        I[i, i] = ONE

    def f(l, _):
        if upper:
            y = tri_solve(eng, l, I, True, False, transpose=True)
            return tri_solve(eng, l, y, True, False)
        y = tri_solve(eng, l, I, False, False)
        return tri_solve(eng, l, y, False, False, transpose=True)

    return batched(eng, L, L, f, (n, n))


# ------------------------------------------------------------------ determinant / inverse / solve by cofactors
def det_cells(M):
    n = M.shape[0]
    if n == 0:
        return ONE
    if n == 1:
        return M[0, 0]
    if n == 2:
        return T.sub(T.mul(M[0, 0], M[1, 1]), T.mul(M[0, 1], M[1, 0]))
    acc = ZERO
    for j in range(n):
        if T.is_const(M[0, j]) and M[0, j] == 0:
            continue
        minor = np.delete(np.delete(M, 0, axis=0), j, axis=1)
        term = T.mul(M[0, j], det_cells(minor))
        acc = T.add(acc, term) if j % 2 == 0 else T.sub(acc, term)
    return acc


def inv_cells(eng, M):
    n = M.shape[0]
    if n > 4:
        raise UnsupportedOp("symbolic inverse for n > 4")
    d = det_cells(M)
    if T.is_term(d) and not T.is_positive(d):
        eng.require_defined(T.ne(d, 0), "inverse: det != 0")
    R_ = np.empty((n, n), dtype=object)
    for i in range(n):
        for j in range(n):
            minor = np.delete(np.delete(M, j, axis=0), i, axis=1)
            c = det_cells(minor)
            if (i + j) % 2:
                c = T.neg(c)
            R_[i, j] = T.div(c, d)
    return R_


@op("linalg_inv_ex")
def _inv_ex(eng, b, func, out):
    A = eng.sym(b["A"])
    eng.stub_log.append(("linalg_inv_ex", "cofactor"))
    res = np.empty(A.shape, dtype=object)
    for idx in batch_iter(A.shape[:-2]):
        res[idx] = inv_cells(eng, A[idx])
    info = np.empty(A.shape[:-2], dtype=object)
    info[...] = 0
    return [res, info]


@op("_linalg_solve_ex")
def _solve_ex(eng, b, func, out):
    A, B_ = eng.sym(b["A"]), eng.sym(b["B"])
    left = b["left"]
    eng.stub_log.append(("_linalg_solve_ex", "cofactor"))
    vec = B_.ndim == A.ndim - 1 or (B_.ndim == 1)
    Bm = B_[..., None] if vec else B_

    def f(a, bb):
        ai = inv_cells(eng, a)
        return as_obj(np.matmul(ai, bb)) if left else as_obj(np.matmul(bb, ai))

    X = batched(eng, A, Bm, f, Bm.shape[-2:])
    if vec:
        X = X[..., 0]
    result, LU, pivots, info = out
    eng.new(result, X)
    # LU / pivots are implementation details of the real kernel: unspecified here
    if LU.numel():
        eng.fresh_symbolic(LU, "lu_unspec")
    return None


@op("_linalg_det")
def _det(eng, b, func, out):
    A = eng.sym(b["A"])
    res = np.empty(A.shape[:-2], dtype=object)
    for idx in batch_iter(A.shape[:-2]):
        res[idx] = det_cells(A[idx])
    det_t, LU, piv = out
    eng.new(det_t, res)
    if LU.numel():
        eng.fresh_symbolic(LU, "lu_unspec")
    eng.stub_log.append(("_linalg_det", "cofactor"))
    return None


@op("_linalg_slogdet")
def _slogdet(eng, b, func, out):
    A = eng.sym(b["A"])
    sign = np.empty(A.shape[:-2], dtype=object)
    lad = np.empty(A.shape[:-2], dtype=object)
    for idx in batch_iter(A.shape[:-2]):
        d = det_cells(A[idx])
        sign[idx] = T.sign(d)
        ad = T.absv(d)
        if T.is_term(ad) and not T.is_positive(ad):
            eng.require_defined(T.gt(ad, 0), "slogdet: det != 0")
        lad[idx] = T.uf("log", ad)
    s_t, l_t, LU, piv = out
    eng.new(s_t, sign)
    eng.new(l_t, lad)
    if LU.numel():
        eng.fresh_symbolic(LU, "lu_unspec")
    eng.stub_log.append(("_linalg_slogdet", "cofactor"))
    return None


# ------------------------------------------------------------------ registered decompositions
@op("_linalg_eigh")
def _eigh(eng, b, func, out):
    A = eng.sym(b["A"])
    w_t, Q_t = out
    for RA, w_reg, Q_reg in eng.registered_eigh:
        if RA.shape == A.shape and same_cells(eng, A, RA):
            eng.stub_log.append(("_linalg_eigh", "registered"))
            bind_out(eng, w_t, eng.sym(w_reg), override_shadow=True)
            if Q_t.numel():
                bind_out(eng, Q_t, eng.sym(Q_reg), override_shadow=True)
            return None
    # diagonal input: eigenvalues are the diagonal in ascending order -> fork on the order (n <= 3)
    n = A.shape[-1]
    offdiag_zero = all(T.is_const(A[idx + (i, j)]) and A[idx + (i, j)] == 0 for idx in batch_iter(A.shape[:-2])
                       for i in range(n) for j in range(n) if i != j)
    if offdiag_zero and n <= 3:
        W = np.empty(A.shape[:-1], dtype=object)
        Q = np.empty(A.shape, dtype=object)
        Q[...] = ZERO
        for idx in batch_iter(A.shape[:-2]):
            d = [A[idx + (i, i)] for i in range(n)]
            perms = list(itertools.permutations(range(n)))
            options = []
            for pm in perms:
                conds = [T.le(d[pm[i]], d[pm[i + 1]]) for i in range(n - 1)]
                options.append((pm, T.conj(conds)))
            pm = eng.choose(options, "eigh-diagonal-order") if n > 1 else (0,)
            for i in range(n):
                W[idx + (i,)] = d[pm[i]]
                Q[idx + (pm[i], i)] = ONE
        eng.stub_log.append(("_linalg_eigh", "diagonal"))
        bind_out(eng, w_t, W, override_shadow=True)
        if Q_t.numel():
            bind_out(eng, Q_t, Q, override_shadow=True)
        return None
    if n == 2:
        # closed form for a symmetric 2x2 (reads the lower triangle like LAPACK with UPLO="L"):
        #   w = (a+c)/2 -+ r,  r = sqrt(((a-c)/2)^2 + b^2) ;  v = (b, w - a) / |.|     generic case b != 0
        W = np.empty(A.shape[:-1], dtype=object)
        Q = np.empty(A.shape, dtype=object)
        half = Fraction(1, 2)
        for idx in batch_iter(A.shape[:-2]):
            a, bb, c = A[idx + (0, 0)], A[idx + (1, 0)], A[idx + (1, 1)]
            if T.is_const(bb) and bb == 0:
                raise UnsupportedOp("_linalg_eigh: diagonal 2x2 handled elsewhere")
            m = T.mul(T.add(a, c), half)
            dlt = T.mul(T.sub(a, c), half)
            r = T.sqrt(T.add(T.mul(dlt, dlt), T.mul(bb, bb)))
            if T.is_term(r):
                T.declare_positive(r)
            eng.require_defined(T.ne(bb, 0), "eigh 2x2 closed form: off-diagonal entry non-zero (generic case)")
            for k, lam in enumerate((T.sub(m, r), T.add(m, r))):
                W[idx + (k,)] = lam
                v0, v1 = bb, T.sub(lam, a)
                nrm = T.sqrt(T.add(T.mul(v0, v0), T.mul(v1, v1)))
                if T.is_term(nrm):
                    T.declare_positive(nrm)
                Q[idx + (0, k)] = T.div(v0, nrm)
                Q[idx + (1, k)] = T.div(v1, nrm)
        eng.stub_log.append(("_linalg_eigh", "closed form 2x2"))
        bind_out(eng, w_t, W, override_shadow=True)
        if Q_t.numel():
            bind_out(eng, Q_t, Q, override_shadow=True)
        return None
    raise UnsupportedOp("_linalg_eigh on an unregistered symbolic matrix")


@op("linalg_qr")
def _qr(eng, b, func, out):
    A = eng.sym(b["A"])
    mode = b["mode"]
    Q_t, R_t = out
    for RA, Q_reg, R_reg in eng.registered_qr:
        if RA.shape == A.shape and same_cells(eng, A, RA) and mode == "reduced":
            eng.stub_log.append(("linalg_qr", "registered"))
            bind_out(eng, Q_t, eng.sym(Q_reg), override_shadow=True)
            bind_out(eng, R_t, eng.sym(R_reg), override_shadow=True)
            return None
    if mode != "reduced":
        raise UnsupportedOp(f"linalg_qr mode={mode}")
    m, n = A.shape[-2:]
    if m < n:
        raise UnsupportedOp("linalg_qr of a fat matrix")
    Q = np.empty(A.shape[:-2] + (m, n), dtype=object)
    R_ = np.empty(A.shape[:-2] + (n, n), dtype=object)
    for idx in batch_iter(A.shape[:-2]):
        M = A[idx]
        # R = chol(A^T A)^T with positive diagonal; radicands are Gram determinants (polynomials), Q = A R^{-1}
        G = as_obj(np.matmul(M.T, M))
        Lc, inf = chol_explicit(eng, G, False, "qr")
        if inf != 0:
            raise PathAbort("witness point lies outside the domain of definition: qr: full column rank")
        Ru = Lc.T
        R_[idx] = Ru
        # Q^T = R^{-T} A^T  (lower-triangular solve with L = R^T)
        Qt = tri_solve(eng, Lc, M.T, False, False)
        Q[idx] = Qt.T
    eng.stub_log.append(("linalg_qr", "gram-schmidt (R diagonal > 0; LAPACK may differ by column signs)"))
    bind_out(eng, Q_t, Q, override_shadow=True)
    bind_out(eng, R_t, R_, override_shadow=True)
    return None


@op("_linalg_svd")
def _svd(eng, b, func, out):
    A = eng.sym(b["A"])
    U_t, S_t, Vh_t = out
    for RA, U_reg, S_reg, Vh_reg in getattr(eng, "registered_svd", []):
        if RA.shape == A.shape and same_cells(eng, A, RA):
            eng.stub_log.append(("_linalg_svd", "registered"))
            bind_out(eng, S_t, eng.sym(S_reg), override_shadow=True)
            if U_t.numel():
                bind_out(eng, U_t, eng.sym(U_reg), override_shadow=True)
            if Vh_t.numel():
                bind_out(eng, Vh_t, eng.sym(Vh_reg), override_shadow=True)
            return None
    raise UnsupportedOp("_linalg_svd on an unregistered symbolic matrix")
