"""Builder catalogue: every operator class with an independent dense reference.

A builder is `f(ctx, n, batch, p) -> (op, ref)`; `ref` is a plain torch expression of the *same leaves*,
written from the mathematical definition of the structure (never via the library).
"""
from __future__ import annotations

import torch

import linear_operator.operators as O
from linear_operator import to_linear_operator

BUILDERS = {}


class B:
    def __init__(self, name, fn, square=True, psd=False, pd=False, rect=False, min_n=1, sizes=None, tags=()):
        self.name, self.fn = name, fn
        self.square, self.psd, self.pd, self.rect, self.min_n = square, psd, pd, rect, min_n
        self.tags = set(tags)

    def __call__(self, ctx, n=2, batch=(), p=""):
        return self.fn(ctx, n, tuple(batch), p)


def builder(name, **kw):
    def deco(f):
        BUILDERS[name] = B(name, f, **kw)
        return f

    return deco


# ---------------------------------------------------------------- dense reference helpers
def kron_ref(A, B_):
    return (A[..., :, None, :, None] * B_[..., None, :, None, :]).reshape(
        *torch.broadcast_shapes(A.shape[:-2], B_.shape[:-2]), A.shape[-2] * B_.shape[-2], A.shape[-1] * B_.shape[-1])


def toeplitz_ref(col):
    n = col.shape[-1]
    idx = (torch.arange(n)[:, None] - torch.arange(n)[None, :]).abs()
    return col[..., idx]


def diag_ref(d):
    return torch.diag_embed(d)


def eye_ref(n, batch=(), dtype=torch.float64):
    return torch.eye(n, dtype=dtype).expand(*batch, n, n)


def interp_matrix(idx, val, m):
    """W (... n x m) with W[i, idx[i,k]] += val[i,k]; idx concrete or symbolic (compared via ==)"""
    cols = torch.arange(m)
    onehot = (idx[..., :, :, None] == cols).to(val.dtype)  # ... n k m
    return (onehot * val[..., :, :, None]).sum(-2)


def block_diag_ref(blocks):
    """blocks: ... k n m  -> ... (k n) (k m)"""
    *b, k, n, m = blocks.shape
    out = torch.zeros(*b, k * n, k * m, dtype=blocks.dtype)
    rows = []
    for i in range(k):
        row = [blocks[..., i, :, :] if j == i else torch.zeros(*b, n, m, dtype=blocks.dtype) for j in range(k)]
        rows.append(torch.cat(row, dim=-1))
    return torch.cat(rows, dim=-2)


def block_interleaved_ref(blocks):
    """out[j*k + i, l*k + i] = blocks[i, j, l]"""
    *b, k, n, m = blocks.shape
    bd = block_diag_ref(blocks)  # index (i*n + j, i*m + l)
    rperm = torch.tensor([i * n + j for j in range(n) for i in range(k)])
    cperm = torch.tensor([i * m + l for l in range(m) for i in range(k)])
    return bd[..., rperm, :][..., :, cperm]


def psd_from(ctx, name, n, batch, rank=None, pd=True):
    """A = L L^T from a lower-triangular factor leaf with positive diagonal (Cholesky is a bijection onto PD)"""
    if rank is None:
        L = ctx.leaf(name, batch + (n, n), tril=True, posdiag=pd)
    else:
        L = ctx.leaf(name, batch + (n, rank))
    A = L @ L.mT
    if rank is None:
        ctx.register_chol(A, L)
    return A, L


# ---------------------------------------------------------------- leaf classes
@builder("Dense", rect=True)
def _dense(ctx, n, batch, p):
    A = ctx.leaf(p + "A", batch + (n, n))
    return O.DenseLinearOperator(A), A


@builder("DenseRect", square=False, rect=True)
def _dense_rect(ctx, n, batch, p):
    A = ctx.leaf(p + "A", batch + (n, n + 1))
    return O.DenseLinearOperator(A), A


@builder("DensePD", psd=True, pd=True)
def _dense_pd(ctx, n, batch, p):
    A, L = psd_from(ctx, p + "L", n, batch)
    return O.DenseLinearOperator(A), A


def eig_from(ctx, name, batch=()):
    """A = Q diag(w) Q^T, 2x2, Q a rotation atom, w ascending and >= 1/8 (every PD 2x2 with eigenvalues >= 1/8)"""
    Q = ctx.rotation2(name + "Q")
    w = ctx.leaf(name + "w", (2,), lo=0.125, hi=64, ascending=True)
    A = Q @ torch.diag_embed(w) @ Q.mT
    ctx.register_eigh(A, w, Q)
    return A, w, Q


@builder("DenseEig", psd=True, pd=True, tags=("eig",))
def _dense_eig(ctx, n, batch, p):
    A, w, Q = eig_from(ctx, p + "E")
    ctx.note("logdet_atoms", torch.log(w).sum())
    return O.DenseLinearOperator(A), A


@builder("KroneckerEig", psd=True, pd=True, tags=("eig",))
def _kron_eig(ctx, n, batch, p):
    A, wa, _ = eig_from(ctx, p + "EA")
    B_, wb, _ = eig_from(ctx, p + "EB")
    return O.KroneckerProductLinearOperator(A, B_), kron_ref(A, B_)


@builder("KroneckerAddedConstDiagEig", psd=True, pd=True, tags=("eig",))
def _kron_acd_eig(ctx, n, batch, p):
    A, wa, _ = eig_from(ctx, p + "EA")
    B_, wb, _ = eig_from(ctx, p + "EB")
    c = ctx.leaf(p + "c", (1,), positive=True)
    K = O.KroneckerProductLinearOperator(A, B_)
    return O.KroneckerProductAddedDiagLinearOperator(K, O.ConstantDiagLinearOperator(c, diag_shape=4)), kron_ref(A, B_) + diag_ref(c.expand(4))


@builder("KroneckerAddedKronDiagEig", psd=True, pd=True, tags=("eig",))
def _kron_akd_eig(ctx, n, batch, p):
    A, wa, _ = eig_from(ctx, p + "EA")
    B_, wb, _ = eig_from(ctx, p + "EB")
    a = ctx.leaf(p + "a", (2,), positive=True)
    b_ = ctx.leaf(p + "b", (2,), positive=True)
    K = O.KroneckerProductLinearOperator(A, B_)
    D = O.KroneckerProductDiagLinearOperator(O.DiagLinearOperator(a), O.DiagLinearOperator(b_))
    return O.KroneckerProductAddedDiagLinearOperator(K, D), kron_ref(A, B_) + kron_ref(diag_ref(a), diag_ref(b_))


@builder("KroneckerAddedKronConstDiagEig", psd=True, pd=True, tags=("eig",))
def _kron_akcd_eig(ctx, n, batch, p):
    A, wa, _ = eig_from(ctx, p + "EA")
    B_, wb, _ = eig_from(ctx, p + "EB")
    a = ctx.leaf(p + "a", (1,), positive=True)
    b_ = ctx.leaf(p + "b", (1,), positive=True)
    K = O.KroneckerProductLinearOperator(A, B_)
    D = O.KroneckerProductDiagLinearOperator(O.ConstantDiagLinearOperator(a, diag_shape=2), O.ConstantDiagLinearOperator(b_, diag_shape=2))
    return O.KroneckerProductAddedDiagLinearOperator(K, D), kron_ref(A, B_) + kron_ref(diag_ref(a.expand(2)), diag_ref(b_.expand(2)))


@builder("Diag", psd=True, pd=True)
def _diag(ctx, n, batch, p):
    d = ctx.leaf(p + "d", batch + (n,), positive=True)
    return O.DiagLinearOperator(d), diag_ref(d)


@builder("DiagBounded", psd=True, pd=True, tags=("eig",))
def _diag_bounded(ctx, n, batch, p):
    d = ctx.leaf(p + "d", (2,), lo=0.125, hi=64)
    return O.DiagLinearOperator(d), diag_ref(d)


@builder("ConstantDiagBounded", psd=True, pd=True, tags=("eig",))
def _cdiag_bounded(ctx, n, batch, p):
    c = ctx.leaf(p + "c", (1,), lo=0.125, hi=64)
    return O.ConstantDiagLinearOperator(c, diag_shape=2), diag_ref(c.expand(2))


@builder("DiagSigned")
def _diag_signed(ctx, n, batch, p):
    d = ctx.leaf(p + "d", batch + (n,))
    return O.DiagLinearOperator(d), diag_ref(d)


@builder("ConstantDiag", psd=True, pd=True)
def _cdiag(ctx, n, batch, p):
    c = ctx.leaf(p + "c", batch + (1,), positive=True)
    return O.ConstantDiagLinearOperator(c, diag_shape=n), diag_ref(c.expand(*batch, n))


@builder("Identity", psd=True, pd=True)
def _identity(ctx, n, batch, p):
    return O.IdentityLinearOperator(n, batch_shape=torch.Size(batch), dtype=torch.float64), eye_ref(n, batch)


@builder("Zero", psd=True)
def _zero(ctx, n, batch, p):
    return O.ZeroLinearOperator(*batch, n, n, dtype=torch.float64), torch.zeros(*batch, n, n, dtype=torch.float64)


@builder("Toeplitz")
def _toeplitz(ctx, n, batch, p):
    c = ctx.leaf(p + "col", batch + (n,))
    return O.ToeplitzLinearOperator(c), toeplitz_ref(c)


@builder("TriangularLower")
def _tril(ctx, n, batch, p):
    L = ctx.leaf(p + "L", batch + (n, n), tril=True, posdiag=True)
    return O.TriangularLinearOperator(L, upper=False), L


@builder("TriangularUpper")
def _triu(ctx, n, batch, p):
    U_ = ctx.leaf(p + "U", batch + (n, n), triu=True, posdiag=True)
    return O.TriangularLinearOperator(U_, upper=True), U_


@builder("CholLower", psd=True, pd=True)
def _chol_lower(ctx, n, batch, p):
    L = ctx.leaf(p + "L", batch + (n, n), tril=True, posdiag=True)
    return O.CholLinearOperator(O.TriangularLinearOperator(L, upper=False), upper=False), L @ L.mT


@builder("CholUpper", psd=True, pd=True)
def _chol_upper(ctx, n, batch, p):
    # documented meaning: upper=True stores R with A = R^T R
    R_ = ctx.leaf(p + "R", batch + (n, n), triu=True, posdiag=True)
    return O.CholLinearOperator(O.TriangularLinearOperator(R_, upper=True), upper=True), R_.mT @ R_


@builder("Root", psd=True)
def _root(ctx, n, batch, p):
    R_ = ctx.leaf(p + "R", batch + (n, n))
    return O.RootLinearOperator(R_), R_ @ R_.mT


@builder("LowRankRoot", psd=True)
def _lrroot(ctx, n, batch, p):
    R_ = ctx.leaf(p + "R", batch + (n, 1))
    return O.LowRankRootLinearOperator(R_), R_ @ R_.mT


# ---------------------------------------------------------------- Kronecker family
@builder("Kronecker", rect=True)
def _kron(ctx, n, batch, p):
    A = ctx.leaf(p + "A", batch + (n, n))
    B_ = ctx.leaf(p + "B", batch + (2, 2))
    return O.KroneckerProductLinearOperator(A, B_), kron_ref(A, B_)


@builder("KroneckerRect", square=False, rect=True)
def _kron_rect(ctx, n, batch, p):
    A = ctx.leaf(p + "A", batch + (n, n + 1))
    B_ = ctx.leaf(p + "B", batch + (2, 1))
    return O.KroneckerProductLinearOperator(A, B_), kron_ref(A, B_)


@builder("Kronecker3")
def _kron3(ctx, n, batch, p):
    A = ctx.leaf(p + "A", batch + (n, n))
    B_ = ctx.leaf(p + "B", batch + (2, 2))
    C = ctx.leaf(p + "C", batch + (1, 1)) if n > 2 else ctx.leaf(p + "C", batch + (2, 2))
    return O.KroneckerProductLinearOperator(A, B_, C), kron_ref(kron_ref(A, B_), C)


@builder("KroneckerPD", psd=True, pd=True)
def _kron_pd(ctx, n, batch, p):
    A, _ = psd_from(ctx, p + "LA", n, batch)
    B_, _ = psd_from(ctx, p + "LB", 2, batch)
    return O.KroneckerProductLinearOperator(A, B_), kron_ref(A, B_)


@builder("KroneckerTriangular")
def _kron_tri(ctx, n, batch, p):
    A = ctx.leaf(p + "A", batch + (n, n), tril=True, posdiag=True)
    B_ = ctx.leaf(p + "B", batch + (2, 2), tril=True, posdiag=True)
    op = O.KroneckerProductTriangularLinearOperator(O.TriangularLinearOperator(A), O.TriangularLinearOperator(B_))
    return op, kron_ref(A, B_)


@builder("KroneckerDiag", psd=True, pd=True)
def _kron_diag(ctx, n, batch, p):
    a = ctx.leaf(p + "a", batch + (n,), positive=True)
    b_ = ctx.leaf(p + "b", batch + (2,), positive=True)
    op = O.KroneckerProductDiagLinearOperator(O.DiagLinearOperator(a), O.DiagLinearOperator(b_))
    return op, kron_ref(diag_ref(a), diag_ref(b_))


@builder("KroneckerAddedConstDiag", psd=True, pd=True)
def _kron_added_cdiag(ctx, n, batch, p):
    A, _ = psd_from(ctx, p + "LA", n, batch)
    B_, _ = psd_from(ctx, p + "LB", 2, batch)
    c = ctx.leaf(p + "c", batch + (1,), positive=True)
    K = O.KroneckerProductLinearOperator(A, B_)
    op = O.KroneckerProductAddedDiagLinearOperator(K, O.ConstantDiagLinearOperator(c, diag_shape=2 * n))
    return op, kron_ref(A, B_) + diag_ref(c.expand(*batch, 2 * n))


@builder("KroneckerAddedDiag", psd=True, pd=True)
def _kron_added_diag(ctx, n, batch, p):
    A, _ = psd_from(ctx, p + "LA", n, batch)
    B_, _ = psd_from(ctx, p + "LB", 2, batch)
    d = ctx.leaf(p + "d", batch + (2 * n,), positive=True)
    K = O.KroneckerProductLinearOperator(A, B_)
    op = O.KroneckerProductAddedDiagLinearOperator(K, O.DiagLinearOperator(d))
    return op, kron_ref(A, B_) + diag_ref(d)


@builder("KroneckerAddedKronDiag", psd=True, pd=True)
def _kron_added_krondiag(ctx, n, batch, p):
    A, _ = psd_from(ctx, p + "LA", n, batch)
    B_, _ = psd_from(ctx, p + "LB", 2, batch)
    a = ctx.leaf(p + "a", batch + (n,), positive=True)
    b_ = ctx.leaf(p + "b", batch + (2,), positive=True)
    K = O.KroneckerProductLinearOperator(A, B_)
    D = O.KroneckerProductDiagLinearOperator(O.DiagLinearOperator(a), O.DiagLinearOperator(b_))
    op = O.KroneckerProductAddedDiagLinearOperator(K, D)
    return op, kron_ref(A, B_) + kron_ref(diag_ref(a), diag_ref(b_))


@builder("SumKronecker", psd=True, pd=True)
def _sum_kron(ctx, n, batch, p):
    A, _ = psd_from(ctx, p + "LA", n, batch)
    B_, _ = psd_from(ctx, p + "LB", 2, batch)
    C, _ = psd_from(ctx, p + "LC", n, batch)
    D, _ = psd_from(ctx, p + "LD", 2, batch)
    op = O.SumKroneckerLinearOperator(O.KroneckerProductLinearOperator(A, B_), O.KroneckerProductLinearOperator(C, D))
    return op, kron_ref(A, B_) + kron_ref(C, D)


# ---------------------------------------------------------------- sums / products
@builder("AddedDiag", psd=True, pd=True)
def _added_diag(ctx, n, batch, p):
    A, _ = psd_from(ctx, p + "L", n, batch)
    d = ctx.leaf(p + "d", batch + (n,), positive=True)
    return O.AddedDiagLinearOperator(O.DenseLinearOperator(A), O.DiagLinearOperator(d)), A + diag_ref(d)


@builder("AddedConstDiag", psd=True, pd=True)
def _added_cdiag(ctx, n, batch, p):
    A, _ = psd_from(ctx, p + "L", n, batch)
    c = ctx.leaf(p + "c", batch + (1,), positive=True)
    op = O.AddedDiagLinearOperator(O.DenseLinearOperator(A), O.ConstantDiagLinearOperator(c, diag_shape=n))
    return op, A + diag_ref(c.expand(*batch, n))


@builder("AddedConstDiagEig", psd=True, pd=True, tags=("eig",))
def _added_cdiag_eig(ctx, n, batch, p):
    A, w, Q = eig_from(ctx, p + "E")
    c = ctx.leaf(p + "c", (1,), positive=True)
    op = O.DenseLinearOperator(A).add_jitter(c)
    return op, A + diag_ref(c.expand(2))


@builder("LowRankRootAddedDiag", psd=True, pd=True)
def _lrr_added_diag(ctx, n, batch, p):
    R_ = ctx.leaf(p + "R", batch + (n, 1))
    d = ctx.leaf(p + "d", batch + (n,), positive=True)
    op = O.LowRankRootAddedDiagLinearOperator(O.LowRankRootLinearOperator(R_), O.DiagLinearOperator(d))
    return op, R_ @ R_.mT + diag_ref(d)


@builder("Sum")
def _sum(ctx, n, batch, p):
    A = ctx.leaf(p + "A", batch + (n, n))
    c = ctx.leaf(p + "col", batch + (n,))
    return O.SumLinearOperator(O.DenseLinearOperator(A), O.ToeplitzLinearOperator(c)), A + toeplitz_ref(c)


@builder("PsdSum", psd=True, pd=True)
def _psd_sum(ctx, n, batch, p):
    A, _ = psd_from(ctx, p + "L", n, batch)
    d = ctx.leaf(p + "d", batch + (n,), positive=True)
    R_ = ctx.leaf(p + "R", batch + (n, 1))
    op = O.PsdSumLinearOperator(O.DenseLinearOperator(A), O.RootLinearOperator(R_))
    return op, A + R_ @ R_.mT


@builder("Matmul", rect=True)
def _matmul(ctx, n, batch, p):
    A = ctx.leaf(p + "A", batch + (n, n + 1))
    B_ = ctx.leaf(p + "B", batch + (n + 1, n))
    return O.MatmulLinearOperator(O.DenseLinearOperator(A), O.DenseLinearOperator(B_)), A @ B_


@builder("MatmulDiagLeft")
def _matmul_diag(ctx, n, batch, p):
    d = ctx.leaf(p + "d", batch + (n,))
    c = ctx.leaf(p + "col", batch + (n,))
    return O.MatmulLinearOperator(O.DiagLinearOperator(d), O.ToeplitzLinearOperator(c)), diag_ref(d) @ toeplitz_ref(c)


@builder("Mul", psd=True)
def _mul(ctx, n, batch, p):
    R1 = ctx.leaf(p + "R1", batch + (n, 1))
    R2 = ctx.leaf(p + "R2", batch + (n, 2))
    op = O.MulLinearOperator(O.RootLinearOperator(R1), O.RootLinearOperator(R2))
    return op, (R1 @ R1.mT) * (R2 @ R2.mT)


@builder("ConstantMul")
def _cmul(ctx, n, batch, p):
    c = ctx.leaf(p + "c", batch)
    col = ctx.leaf(p + "col", batch + (n,))
    return O.ConstantMulLinearOperator(O.ToeplitzLinearOperator(col), c), toeplitz_ref(col) * c[..., None, None]


@builder("ConstantMulBcast", tags=("fixedbatch",))
def _cmul_bcast(ctx, n, batch, p):
    # batch (2, 2); the constant varies along the FIRST batch dimension only and is broadcast along the second
    c = ctx.leaf(p + "c", (2, 1, 1, 1))
    A = ctx.leaf(p + "A", (2, 2, n, n))
    return O.DenseLinearOperator(A) * c, A * c


@builder("ConstantMulBcastLast", tags=("fixedbatch",))
def _cmul_bcast_last(ctx, n, batch, p):
    # the constant varies along the LAST batch dimension only
    c = ctx.leaf(p + "c", (1, 2, 1, 1))
    col = ctx.leaf(p + "col", (2, 2, n))
    return O.ToeplitzLinearOperator(col) * c, toeplitz_ref(col) * c


@builder("ConstantMulPos", psd=True, pd=True)
def _cmul_pos(ctx, n, batch, p):
    c = ctx.leaf(p + "c", batch, positive=True)
    A, _ = psd_from(ctx, p + "L", n, batch)
    return O.ConstantMulLinearOperator(O.DenseLinearOperator(A), c), A * c[..., None, None]


# ---------------------------------------------------------------- block / batch structure
@builder("BlockDiag", psd=True, pd=True)
def _block_diag(ctx, n, batch, p):
    L = ctx.leaf(p + "L", batch + (2, n, n), tril=True, posdiag=True)
    blocks = L @ L.mT
    ctx.register_chol(blocks, L)
    return O.BlockDiagLinearOperator(O.DenseLinearOperator(blocks)), block_diag_ref(blocks)


@builder("BlockDiagDim", min_n=1)
def _block_diag_dim(ctx, n, batch, p):
    # block_dim other than -3: blocks live in the first batch dimension
    blocks = ctx.leaf(p + "Bk", (2, 2, n, n))
    op = O.BlockDiagLinearOperator(O.DenseLinearOperator(blocks), block_dim=0)
    return op, block_diag_ref(blocks.permute(1, 0, 2, 3))


@builder("BlockInterleaved", psd=True, pd=True)
def _block_interleaved(ctx, n, batch, p):
    L = ctx.leaf(p + "L", batch + (2, n, n), tril=True, posdiag=True)
    blocks = L @ L.mT
    ctx.register_chol(blocks, L)
    return O.BlockInterleavedLinearOperator(O.DenseLinearOperator(blocks)), block_interleaved_ref(blocks)


@builder("SumBatch")
def _sum_batch(ctx, n, batch, p):
    blocks = ctx.leaf(p + "Bk", batch + (2, n, n))
    return O.SumBatchLinearOperator(O.DenseLinearOperator(blocks)), blocks.sum(-3)


@builder("BatchRepeat")
def _batch_repeat(ctx, n, batch, p):
    col = ctx.leaf(p + "col", batch + (n,))
    rep = torch.Size((2,) + (1,) * len(batch)) if batch else torch.Size((2,))
    op = O.BatchRepeatLinearOperator(O.ToeplitzLinearOperator(col), rep)
    return op, toeplitz_ref(col).repeat(*rep, 1, 1)


@builder("BatchRepeatPD", psd=True, pd=True)
def _batch_repeat_pd(ctx, n, batch, p):
    A, _ = psd_from(ctx, p + "L", n, batch)
    rep = torch.Size((2,) + (1,) * len(batch)) if batch else torch.Size((2,))
    return O.BatchRepeatLinearOperator(O.DenseLinearOperator(A), rep), A.repeat(*rep, 1, 1)


@builder("CatRows", square=False, rect=True)
def _cat_rows(ctx, n, batch, p):
    A = ctx.leaf(p + "A", batch + (1, n))
    B_ = ctx.leaf(p + "B", batch + (n, n))
    return O.CatLinearOperator(O.DenseLinearOperator(A), O.DenseLinearOperator(B_), dim=-2), torch.cat([A, B_], dim=-2)


@builder("CatCols", square=False, rect=True)
def _cat_cols(ctx, n, batch, p):
    A = ctx.leaf(p + "A", batch + (n, 1))
    B_ = ctx.leaf(p + "B", batch + (n, n))
    return O.CatLinearOperator(O.DenseLinearOperator(A), O.DenseLinearOperator(B_), dim=-1), torch.cat([A, B_], dim=-1)


@builder("CatBatch")
def _cat_batch(ctx, n, batch, p):
    A = ctx.leaf(p + "A", (1,) + batch + (n, n))
    B_ = ctx.leaf(p + "B", (2,) + batch + (n, n))
    return O.CatLinearOperator(O.DenseLinearOperator(A), O.DenseLinearOperator(B_), dim=0), torch.cat([A, B_], dim=0)


# ---------------------------------------------------------------- interpolation / masks / permutations / kernels
@builder("Interpolated")
def _interp(ctx, n, batch, p):
    m = n + 1
    K = ctx.leaf(p + "K", batch + (m, m))
    li = ctx.leaf(p + "li", batch + (n, 2), kind="int", lo=0, hi=m, owned=True)
    lv = ctx.leaf(p + "lv", batch + (n, 2))
    ri = ctx.leaf(p + "ri", batch + (n, 2), kind="int", lo=0, hi=m, owned=True)
    rv = ctx.leaf(p + "rv", batch + (n, 2))
    op = O.InterpolatedLinearOperator(O.DenseLinearOperator(K), li, lv, ri, rv)
    Wl, Wr = interp_matrix(li, lv, m), interp_matrix(ri, rv, m)
    return op, Wl @ K @ Wr.mT


@builder("InterpolatedLeftOnly", square=False, rect=True)
def _interp_left(ctx, n, batch, p):
    m = n + 1
    K = ctx.leaf(p + "K", batch + (m, m))
    li = ctx.leaf(p + "li", batch + (n, 2), kind="int", lo=0, hi=m)
    lv = ctx.leaf(p + "lv", batch + (n, 2))
    op = O.InterpolatedLinearOperator(O.DenseLinearOperator(K), left_interp_indices=li, left_interp_values=lv)
    return op, interp_matrix(li, lv, m) @ K


MASKS = {1: [True], 2: [True, False], 3: [True, False, True], 4: [True, True, False, True]}


@builder("Masked", square=False, rect=True)
def _masked(ctx, n, batch, p):
    m = n + 1
    A = ctx.leaf(p + "A", batch + (m, m))
    rmask = torch.tensor(MASKS[m]) if m in MASKS else torch.tensor([True] * m)
    cmask = torch.tensor(list(reversed(MASKS[m]))) if m in MASKS else torch.tensor([True] * m)
    if m == 2:
        cmask = torch.tensor([True, True])
    op = O.MaskedLinearOperator(O.DenseLinearOperator(A), rmask, cmask)
    return op, A[..., rmask, :][..., :, cmask]


PERMS = {1: [0], 2: [1, 0], 3: [2, 0, 1], 4: [1, 3, 0, 2]}


@builder("Permutation")
def _perm(ctx, n, batch, p):
    perm = torch.tensor(PERMS[n]).expand(*batch, n).contiguous()
    op = O.PermutationLinearOperator(perm)
    ref = torch.eye(n, dtype=torch.float64)[perm]  # (P x)[i] = x[perm[i]]
    return op, ref


@builder("TransposePermutation")
def _tperm(ctx, n, batch, p):
    m = 2
    op = O.TransposePermutationLinearOperator(m)
    idx = torch.arange(m * m).reshape(m, m).t().reshape(-1)
    return op.to(torch.float64), torch.eye(m * m, dtype=torch.float64)[idx]


def _poly_kernel(x1, x2, c=None, **kw):
    K = x1 @ x2.mT
    if c is not None:
        K = (K + c) * (K + c)
    return K


@builder("Kernel", rect=True)
def _kernel(ctx, n, batch, p):
    x1 = ctx.leaf(p + "x1", batch + (n, 2))
    x2 = ctx.leaf(p + "x2", batch + (n, 2))
    c = ctx.leaf(p + "c", batch + (1, 1))
    op = O.KernelLinearOperator(x1, x2, covar_func=_poly_kernel, c=c)
    K = x1 @ x2.mT
    return op, (K + c) * (K + c)


@builder("KernelScalarParam")
def _kernel_scalar(ctx, n, batch, p):
    x1 = ctx.leaf(p + "x1", batch + (n, 1))
    s = ctx.leaf(p + "s", batch)

    def f(a, b_, s=None, **kw):
        return (a @ b_.mT) * s[..., None, None]

    op = O.KernelLinearOperator(x1, x1, covar_func=f, num_nonbatch_dimensions={"s": 0}, s=s)
    return op, (x1 @ x1.mT) * s[..., None, None]


class MinimalOp(O.LinearOperator):
    """a user subclass supplying only _matmul, _size and _transpose_nonbatch"""

    def __init__(self, A, transposed=False):
        super().__init__(A, transposed=transposed)
        self.A = A
        self.transposed = transposed

    def _matmul(self, rhs):
        M = self.A.mT if self.transposed else self.A
        return M @ rhs

    def _size(self):
        s = self.A.shape
        return torch.Size((*s[:-2], s[-1], s[-2])) if self.transposed else s

    def _transpose_nonbatch(self):
        return MinimalOp(self.A, transposed=not self.transposed)


@builder("UserMinimal", rect=True)
def _user(ctx, n, batch, p):
    A = ctx.leaf(p + "A", batch + (n, n))
    return MinimalOp(A), A


# ---------------------------------------------------------------- depth-2 nestings
def nest(name, **kw):
    def deco(f):
        BUILDERS[name] = B(name, f, tags=("nested",), **kw)
        return f

    return deco


@nest("Kron(Toeplitz,Diag)")
def _n1(ctx, n, batch, p):
    c = ctx.leaf(p + "col", batch + (n,))
    d = ctx.leaf(p + "d", batch + (2,))
    return O.KroneckerProductLinearOperator(O.ToeplitzLinearOperator(c), O.DiagLinearOperator(d)), kron_ref(toeplitz_ref(c), diag_ref(d))


@nest("Sum(Kron,ConstantMul)")
def _n2(ctx, n, batch, p):
    A = ctx.leaf(p + "A", batch + (n, n))
    B_ = ctx.leaf(p + "B", batch + (2, 2))
    col = ctx.leaf(p + "col", batch + (2 * n,))
    c = ctx.leaf(p + "c", batch)
    op = O.SumLinearOperator(O.KroneckerProductLinearOperator(A, B_), O.ConstantMulLinearOperator(O.ToeplitzLinearOperator(col), c))
    return op, kron_ref(A, B_) + toeplitz_ref(col) * c[..., None, None]


@nest("Matmul(Interp,Root)", square=True)
def _n3(ctx, n, batch, p):
    m = n + 1
    K = ctx.leaf(p + "K", batch + (m, m))
    li = ctx.leaf(p + "li", batch + (n, 1), kind="int", lo=0, hi=m)
    lv = ctx.leaf(p + "lv", batch + (n, 1))
    R_ = ctx.leaf(p + "R", batch + (m, 1))
    left = O.InterpolatedLinearOperator(O.DenseLinearOperator(K), left_interp_indices=li, left_interp_values=lv)
    right = O.RootLinearOperator(R_)
    W = interp_matrix(li, lv, m)
    # left is n x m, right is m x m
    return O.MatmulLinearOperator(left, right), (W @ K) @ (R_ @ R_.mT)


@nest("BlockDiag(Kron)")
def _n4(ctx, n, batch, p):
    A = ctx.leaf(p + "A", batch + (2, n, n))
    B_ = ctx.leaf(p + "B", batch + (2, 2, 2))
    return O.BlockDiagLinearOperator(O.KroneckerProductLinearOperator(A, B_)), block_diag_ref(kron_ref(A, B_))


@nest("Cat(Toeplitz,Diag)", square=False, rect=True)
def _n5(ctx, n, batch, p):
    c = ctx.leaf(p + "col", batch + (n,))
    d = ctx.leaf(p + "d", batch + (n,))
    op = O.CatLinearOperator(O.ToeplitzLinearOperator(c), O.DiagLinearOperator(d), dim=-1)
    return op, torch.cat([toeplitz_ref(c), diag_ref(d)], dim=-1)


@nest("ConstantMul(BlockInterleaved)")
def _n6(ctx, n, batch, p):
    blocks = ctx.leaf(p + "Bk", batch + (2, n, n))
    c = ctx.leaf(p + "c", batch)
    op = O.ConstantMulLinearOperator(O.BlockInterleavedLinearOperator(O.DenseLinearOperator(blocks)), c)
    return op, block_interleaved_ref(blocks) * c[..., None, None]


@nest("Masked(Kron)", square=False, rect=True)
def _n7(ctx, n, batch, p):
    A = ctx.leaf(p + "A", batch + (n, n))
    B_ = ctx.leaf(p + "B", batch + (2, 2))
    N = 2 * n
    rmask = torch.tensor([i % 3 != 1 for i in range(N)])
    cmask = torch.tensor([i % 2 == 0 or i == 1 for i in range(N)])
    op = O.MaskedLinearOperator(O.KroneckerProductLinearOperator(A, B_), rmask, cmask)
    return op, kron_ref(A, B_)[..., rmask, :][..., :, cmask]


@nest("SumBatch(Toeplitz)")
def _n8(ctx, n, batch, p):
    c = ctx.leaf(p + "col", batch + (2, n))
    return O.SumBatchLinearOperator(O.ToeplitzLinearOperator(c)), toeplitz_ref(c).sum(-3)


@nest("AddedDiag(Kron3?)", psd=True, pd=True)
def _n9(ctx, n, batch, p):
    R_ = ctx.leaf(p + "R", batch + (n, n))
    d = ctx.leaf(p + "d", batch + (n,), positive=True)
    op = O.AddedDiagLinearOperator(O.RootLinearOperator(R_), O.DiagLinearOperator(d))
    return op, R_ @ R_.mT + diag_ref(d)


@nest("BatchRepeat(Kron)")
def _n10(ctx, n, batch, p):
    A = ctx.leaf(p + "A", batch + (n, n))
    B_ = ctx.leaf(p + "B", batch + (2, 2))
    rep = torch.Size((2,) + (1,) * len(batch)) if batch else torch.Size((2,))
    op = O.BatchRepeatLinearOperator(O.KroneckerProductLinearOperator(A, B_), rep)
    return op, kron_ref(A, B_).repeat(*rep, 1, 1)


@nest("Triangular(Kron-free dense)T")
def _n11(ctx, n, batch, p):
    L = ctx.leaf(p + "L", batch + (n, n), tril=True, posdiag=True)
    op = O.TriangularLinearOperator(L, upper=False).mT
    return op, L.mT


@nest("Interp(Toeplitz)")
def _n12(ctx, n, batch, p):
    m = n + 1
    col = ctx.leaf(p + "col", batch + (m,))
    li = ctx.leaf(p + "li", batch + (n, 2), kind="int", lo=0, hi=m)
    lv = ctx.leaf(p + "lv", batch + (n, 2))
    op = O.InterpolatedLinearOperator(O.ToeplitzLinearOperator(col), li, lv, li, lv)
    W = interp_matrix(li, lv, m)
    return op, W @ toeplitz_ref(col) @ W.mT


# ---------------------------------------------------------------- builders added after the first seeded-defect round
@builder("BlockDiagDim3", tags=("fixedbatch",))
def _block_diag_dim3(ctx, n, batch, p):
    # block dimension first, followed by TWO batch dimensions (a rotation, not a swap, must bring it to position -3)
    blocks = ctx.leaf(p + "Bk", (2, 2, 3, n, n))
    op = O.BlockDiagLinearOperator(O.DenseLinearOperator(blocks), block_dim=0)
    return op, block_diag_ref(blocks.permute(1, 2, 0, 3, 4))


@builder("BlockInterleavedDim3", tags=("fixedbatch",))
def _block_interleaved_dim3(ctx, n, batch, p):
    blocks = ctx.leaf(p + "Bk", (2, 2, 3, n, n))
    op = O.BlockInterleavedLinearOperator(O.DenseLinearOperator(blocks), block_dim=-5)
    return op, block_interleaved_ref(blocks.permute(1, 2, 0, 3, 4))


@builder("SumBatchDim3", tags=("fixedbatch",))
def _sum_batch_dim3(ctx, n, batch, p):
    blocks = ctx.leaf(p + "Bk", (2, 2, 3, n, n))
    op = O.SumBatchLinearOperator(O.DenseLinearOperator(blocks), block_dim=0)
    return op, blocks.sum(0)


@nest("Sum(Interp,Dense)")
def _n13(ctx, n, batch, p):
    m = n + 1
    K = ctx.leaf(p + "K", batch + (m, m))
    li = ctx.leaf(p + "li", batch + (n, 2), kind="int", lo=0, hi=m)
    lv = ctx.leaf(p + "lv", batch + (n, 2))
    ri = ctx.leaf(p + "ri", batch + (n, 2), kind="int", lo=0, hi=m)
    rv = ctx.leaf(p + "rv", batch + (n, 2))
    A = ctx.leaf(p + "A", batch + (n, n))
    interp = O.InterpolatedLinearOperator(O.DenseLinearOperator(K), li, lv, ri, rv)
    W1, W2 = interp_matrix(li, lv, m), interp_matrix(ri, rv, m)
    return interp + O.DenseLinearOperator(A), W1 @ K @ W2.mT + A


@nest("Interp(Root)")
def _n14(ctx, n, batch, p):
    # same interpolation INDICES on both sides, different weights; base is a RootLinearOperator with a dense root
    m = n + 1
    R_ = ctx.leaf(p + "R", batch + (m, 2))
    li = ctx.leaf(p + "li", batch + (n, 2), kind="int", lo=0, hi=m)
    lv = ctx.leaf(p + "lv", batch + (n, 2))
    rv = ctx.leaf(p + "rv", batch + (n, 2))
    op = O.InterpolatedLinearOperator(O.RootLinearOperator(R_), li, lv, li, rv)
    W1, W2 = interp_matrix(li, lv, m), interp_matrix(li, rv, m)
    return op, W1 @ (R_ @ R_.mT) @ W2.mT


@builder("KroneckerTriangularUpper")
def _kron_tri_upper(ctx, n, batch, p):
    A = ctx.leaf(p + "A", batch + (n, n), triu=True, posdiag=True)
    B_ = ctx.leaf(p + "B", batch + (2, 2), triu=True, posdiag=True)
    op = O.KroneckerProductTriangularLinearOperator(O.TriangularLinearOperator(A, upper=True), O.TriangularLinearOperator(B_, upper=True), upper=True)
    return op, kron_ref(A, B_)


@builder("CholKronLower", psd=True, pd=True)
def _chol_kron_lower(ctx, n, batch, p):
    A = ctx.leaf(p + "A", batch + (n, n), tril=True, posdiag=True)
    B_ = ctx.leaf(p + "B", batch + (2, 2), tril=True, posdiag=True)
    Lk = O.KroneckerProductTriangularLinearOperator(O.TriangularLinearOperator(A), O.TriangularLinearOperator(B_))
    L = kron_ref(A, B_)
    return O.CholLinearOperator(Lk), L @ L.mT


@builder("BatchRepeatPD2", psd=True, pd=True, tags=("fixedbatch",))
def _batch_repeat_pd2(ctx, n, batch, p):
    # base with two batch dims, the second one repeated: (2, 2) -> (2, 4)
    L = ctx.leaf(p + "L", (2, 2, n, n), tril=True, posdiag=True)
    A = L @ L.mT
    ctx.register_chol(A, L)
    rep = torch.Size((1, 2))
    return O.BatchRepeatLinearOperator(O.DenseLinearOperator(A), rep), A.repeat(1, 2, 1, 1)


def select(tags=None, psd=None, pd=None, square=None, names=None, exclude=()):
    out = []
    for nm, b in BUILDERS.items():
        if names is not None and nm not in names:
            continue
        if nm in exclude:
            continue
        if psd is not None and b.psd != psd:
            continue
        if pd is not None and b.pd != pd:
            continue
        if square is not None and b.square != square:
            continue
        out.append(b)
    return out
